"""spec -> code: replays TLC-generated behaviours into real H2Connection objects
and compares each step's observation with the model's prediction.  Equality of
JSON values is the only judgement made here."""

import json
import multiprocessing
import os
import sys
import traceback

from . import driver


def maximal(traces):
    """Drop behaviours that are proper prefixes of other behaviours."""
    keys = [tuple(json.dumps(s, sort_keys=True) for s in t) for t in traces]
    prefixes = set()
    for k in keys:
        for i in range(1, len(k)):
            prefixes.add(hash(k[:i]))
    return [t for t, k in zip(traces, keys) if hash(k) not in prefixes]


def _strip_h(frames):
    out = []
    for f in frames:
        if isinstance(f, dict) and 'h' in f:
            f = dict(f)
            f.pop('h')
        out.append(f)
    return out


def compare(pred, obs):
    """Returns the list of differing fields."""
    p, o = pred, obs
    if pred.get('u'):
        # the model says the sender's HPACK context is no longer predictable: header lists of emitted blocks are not compared
        p = dict(pred)
        o = dict(obs)
        p['o'] = _strip_h(pred['o'])
        o['o'] = _strip_h(obs['o'])
    # sizes of header-block frames are compared only where the model predicts them (it needs the block length)
    if any(isinstance(f, dict) and 'sizes' in f for f in o.get('o', [])):
        po = p.get('o', [])
        oo = []
        for i, f in enumerate(o['o']):
            if isinstance(f, dict) and 'sizes' in f and not (i < len(po) and isinstance(po[i], dict) and 'sizes' in po[i]):
                f = {k: v for k, v in f.items() if k != 'sizes'}
            oo.append(f)
        o = dict(o, o=oo)
    return driver.diff(p, o)


def run_behaviour(meta, steps, catalogue, check_setup=True):
    """Returns None if every step agrees, else a divergence record."""
    sess = driver.Session(meta)
    all_steps = [(s, 'setup') for s in meta.get('setup', [])] + [(s, 'step') for s in steps]
    idx = 0
    dev_before = {}          # per endpoint: deviation branches the model had taken before the current step
    pre_z = {}               # per endpoint: the state projection observed after its previous step
    for s, phase in all_steps:
        if phase == 'step':
            idx += 1
        if 'p' not in s:
            # a step of the witness prefix: executed, not compared here (it is the last, compared, step of another witness)
            try:
                o0 = sess.step(resolve(s, catalogue))
            except Exception:
                return {'kind': 'harness', 'phase': phase, 'step': idx, 'why': traceback.format_exc()[-1500:]}
            if sess.chunk_rng is not None and s['a'] in ('recv', 'dlv') and o0['r']['c'] != 'ok':
                return None      # fed in pieces, an input that raises leaves a partial frame behind: nothing later is comparable
            dev_before[s['x']] = s.get('dev', [])
            pre_z[s['x']] = o0.get('z')
            continue
        if s['p'].get('ux'):
            return None          # the model says this step cannot be predicted (HPACK contexts out of step): nothing further is judged
        s2 = resolve(s, catalogue)
        try:
            obs = sess.step(s2)
        except Exception as e:       # harness failure: reported, never swallowed
            return {'kind': 'harness', 'phase': phase, 'step': idx, 'why': traceback.format_exc()[-1500:]}
        chunked_error = sess.chunk_rng is not None and s['a'] in ('recv', 'dlv') and obs['r']['c'] != 'ok'
        if chunked_error:
            # fed in pieces, the input stops at the piece that raised: what is left in the input buffer is not comparable with
            # the one-call prediction (C21 compares result, events and output up to the error), and nothing later is either
            obs = dict(obs, z=dict(obs['z'], pend='unreadable', hb='unreadable'))
        d = compare(s['p'], obs)
        if d:
            return {'kind': 'diverged', 'phase': phase, 'step': idx, 'fields': d,
                    'call': s.get('c', s.get('fs', s.get('k'))), 'a': s['a'], 'x': s['x'],
                    'expected': {k.split('.')[0]: s['p'].get(k.split('.')[0]) for k in d},
                    'observed': {k.split('.')[0]: obs.get(k.split('.')[0]) for k in d},
                    'dev': s.get('dev', []), 'dev_before': dev_before.get(s['x'], []),
                    'pre_z': pre_z.get(s['x']), 'obs_z': obs.get('z'), 'obs_r': obs.get('r')}
        dev_before[s['x']] = s.get('dev', [])
        pre_z[s['x']] = obs.get('z')
        if chunked_error:
            return None
    return None


def resolve(s, catalogue):
    # shallow: only the parts that change are copied (the prediction is large and is left alone)
    def hl(d):
        if 'hx' in d:                      # explicit tokens (recorded executions)
            return d['hx']
        if 'hn' in d:                      # a list of field names of the token alphabet (MC_HdrEnum*)
            return [catalogue['__tok__'][n] for n in d['hn']]
        return catalogue[d['h']]
    if 'c' in s and isinstance(s['c'].get('h'), str):
        s = dict(s)
        s['c'] = dict(s['c'], h=hl(s['c']))
    elif 'fs' in s and any(isinstance(f.get('h'), str) for f in s['fs']):
        s = dict(s)
        s['fs'] = [dict(f, h=hl(f)) if isinstance(f.get('h'), str) else f for f in s['fs']]
    return s


_G = {}


def _init(meta, catalogue):
    _G['meta'] = meta
    _G['cat'] = catalogue


def _work(rng):
    """rng = (lo, hi): indices into the behaviours the parent put into _G before forking
    (nothing large is pickled: the children share the parent's memory)."""
    out = []
    n = 0
    traces = _G['traces']
    for i in range(rng[0], rng[1]):
        steps = traces[i]
        n += len(steps)
        r = run_behaviour(_G['meta'], steps, _G['cat'])
        if r is not None:
            r['behaviour'] = i
            out.append(r)
    return out, n


def replay_all(meta, traces, catalogue, procs=8, chunk=100):
    """Returns (divergences, n_behaviours, n_steps)."""
    ranges = [(i, min(i + chunk, len(traces))) for i in range(0, len(traces), chunk)]
    divs = []
    steps = 0
    _init(meta, catalogue)
    _G['traces'] = traces
    if procs <= 1 or len(ranges) <= 1:
        for c in ranges:
            d, n = _work(c)
            divs += d
            steps += n
    else:
        ctx = multiprocessing.get_context('fork')
        with ctx.Pool(procs) as pool:
            for d, n in pool.imap_unordered(_work, ranges):
                divs += d
                steps += n
    _G['traces'] = None
    return divs, len(traces), steps


def load_catalogue():
    p = os.path.join(os.path.dirname(os.path.abspath(__file__)), '..', 'spec', 'Cat.json')
    return json.load(open(p))
