"""Independent HTTP/2 frame codec (RFC 7540 sections 4 and 6, RFC 7838 section 4).

Deliberately does not import hyperframe or h2.  It only knows byte layouts; it
judges nothing about protocol state.  parse_frames() is total: anything that is
not a well-formed frame becomes a record with t="MALFORMED" and a reason.
"""
import struct

PREFACE = b'PRI * HTTP/2.0\r\n\r\nSM\r\n\r\n'

T_DATA, T_HEADERS, T_PRIORITY, T_RST, T_SETTINGS, T_PUSH, T_PING, T_GOAWAY, T_WU, T_CONT, T_ALTSVC = \
    0, 1, 2, 3, 4, 5, 6, 7, 8, 9, 10
NAMES = {0: 'DATA', 1: 'HEADERS', 2: 'PRIORITY', 3: 'RST', 4: 'SETTINGS', 5: 'PUSH_PROMISE',
         6: 'PING', 7: 'GOAWAY', 8: 'WU', 9: 'CONTINUATION', 10: 'ALTSVC'}

F_END_STREAM = 0x1
F_ACK = 0x1
F_END_HEADERS = 0x4
F_PADDED = 0x8
F_PRIORITY = 0x20


def header(length, typ, flags, sid):
    return struct.pack('>I', length)[1:] + bytes([typ, flags]) + struct.pack('>I', sid & 0xFFFFFFFF)


def raw_frame(typ, flags, sid, payload):
    return header(len(payload), typ, flags, sid) + payload


def _pad(payload, pad):
    """pad is None or 0..255"""
    if pad is None:
        return 0, payload
    return F_PADDED, bytes([pad]) + payload + b'\0' * pad


def data(sid, payload, es=False, pad=None):
    fl, body = _pad(payload, pad)
    return raw_frame(T_DATA, fl | (F_END_STREAM if es else 0), sid, body)


def prio_bytes(weight, dep, excl):
    """weight is the wire byte 0..255 (value-1)"""
    return struct.pack('>I', (dep & 0x7FFFFFFF) | (0x80000000 if excl else 0)) + bytes([weight & 0xFF])


def headers(sid, block, es=False, eh=True, prio=None, pad=None):
    body = block
    fl = (F_END_STREAM if es else 0) | (F_END_HEADERS if eh else 0)
    if prio is not None:
        body = prio_bytes(*prio) + body
        fl |= F_PRIORITY
    pfl, body = _pad(body, pad)
    return raw_frame(T_HEADERS, fl | pfl, sid, body)


def continuation(sid, block, eh=True):
    return raw_frame(T_CONT, F_END_HEADERS if eh else 0, sid, block)


def push_promise(sid, promised, block, eh=True, pad=None):
    body = struct.pack('>I', promised & 0x7FFFFFFF) + block
    pfl, body = _pad(body, pad)
    return raw_frame(T_PUSH, (F_END_HEADERS if eh else 0) | pfl, sid, body)


def priority(sid, weight, dep, excl):
    return raw_frame(T_PRIORITY, 0, sid, prio_bytes(weight, dep, excl))


def rst(sid, code):
    return raw_frame(T_RST, 0, sid, struct.pack('>I', code))


def settings(pairs, ack=False):
    body = b''.join(struct.pack('>HI', i & 0xFFFF, v & 0xFFFFFFFF) for i, v in pairs)
    return raw_frame(T_SETTINGS, F_ACK if ack else 0, 0, body)


def ping(payload, ack=False):
    return raw_frame(T_PING, F_ACK if ack else 0, 0, payload)


def goaway(last, code, debug=b''):
    return raw_frame(T_GOAWAY, 0, 0, struct.pack('>II', last & 0x7FFFFFFF, code) + debug)


def window_update(sid, inc):
    return raw_frame(T_WU, 0, sid, struct.pack('>I', inc & 0x7FFFFFFF))


def altsvc(sid, origin, field):
    return raw_frame(T_ALTSVC, 0, sid, struct.pack('>H', len(origin)) + origin + field)


# ---------------------------------------------------------------- parsing

def split_frames(buf):
    """Split a byte string into (type, flags, sid_raw, payload) tuples.
    Returns (frames, rest) where rest is an incomplete tail."""
    out = []
    i = 0
    n = len(buf)
    while n - i >= 9:
        length = int.from_bytes(buf[i:i + 3], 'big')
        if n - i - 9 < length:
            break
        typ, fl = buf[i + 3], buf[i + 4]
        sid = int.from_bytes(buf[i + 5:i + 9], 'big')
        out.append((typ, fl, sid, bytes(buf[i + 9:i + 9 + length])))
        i += 9 + length
    return out, bytes(buf[i:])


def _unpad(fl, payload):
    if fl & F_PADDED:
        if not payload:
            return None, None
        pad = payload[0]
        body = payload[1:]
        if pad > len(body):
            return None, None
        return pad, body[:len(body) - pad]
    return -1, payload


def parse_frame(typ, fl, sid_raw, payload):
    """One raw frame -> dict.  Keys: t, sid, len (payload length on the wire) + per type."""
    sid = sid_raw & 0x7FFFFFFF
    f = {'t': NAMES.get(typ, 'UNKNOWN'), 'sid': sid, 'len': len(payload), 'fl': fl}
    bad = lambda why: {'t': 'MALFORMED', 'sid': sid, 'len': len(payload), 'fl': fl, 'typ': typ, 'why': why}
    if typ == T_DATA:
        pad, body = _unpad(fl, payload)
        if pad is None:
            return bad('padding')
        f.update(es=bool(fl & F_END_STREAM), pad=pad, data=body)
    elif typ == T_HEADERS:
        pad, body = _unpad(fl, payload)
        if pad is None:
            return bad('padding')
        prio = None
        if fl & F_PRIORITY:
            if len(body) < 5:
                return bad('short priority')
            d = int.from_bytes(body[:4], 'big')
            prio = [body[4] + 1, d & 0x7FFFFFFF, bool(d >> 31)]
            body = body[5:]
        f.update(es=bool(fl & F_END_STREAM), eh=bool(fl & F_END_HEADERS), pad=pad, prio=prio, block=body)
    elif typ == T_PRIORITY:
        if len(payload) != 5:
            return bad('length')
        d = int.from_bytes(payload[:4], 'big')
        f.update(w=payload[4] + 1, dep=d & 0x7FFFFFFF, excl=bool(d >> 31))
    elif typ == T_RST:
        if len(payload) != 4:
            return bad('length')
        f.update(code=int.from_bytes(payload, 'big'))
    elif typ == T_SETTINGS:
        if len(payload) % 6:
            return bad('length')
        f.update(ack=bool(fl & F_ACK),
                 settings=[[int.from_bytes(payload[i:i + 2], 'big'), int.from_bytes(payload[i + 2:i + 6], 'big')]
                           for i in range(0, len(payload), 6)])
    elif typ == T_PUSH:
        pad, body = _unpad(fl, payload)
        if pad is None:
            return bad('padding')
        if len(body) < 4:
            return bad('short')
        f.update(eh=bool(fl & F_END_HEADERS), pad=pad, promised=int.from_bytes(body[:4], 'big') & 0x7FFFFFFF,
                 block=body[4:])
    elif typ == T_PING:
        if len(payload) != 8:
            return bad('length')
        f.update(ack=bool(fl & F_ACK), data=payload)
    elif typ == T_GOAWAY:
        if len(payload) < 8:
            return bad('length')
        f.update(last=int.from_bytes(payload[:4], 'big') & 0x7FFFFFFF, code=int.from_bytes(payload[4:8], 'big'),
                 data=payload[8:])
    elif typ == T_WU:
        if len(payload) != 4:
            return bad('length')
        f.update(inc=int.from_bytes(payload, 'big') & 0x7FFFFFFF)
    elif typ == T_CONT:
        f.update(eh=bool(fl & F_END_HEADERS), block=payload)
    elif typ == T_ALTSVC:
        if len(payload) < 2:
            return bad('length')
        ol = int.from_bytes(payload[:2], 'big')
        if ol > len(payload) - 2:
            return bad('origin length')
        f.update(origin=payload[2:2 + ol], field=payload[2 + ol:])
    else:
        f.update(typ=typ, data=payload)
    return f


def parse_frames(buf):
    raw, rest = split_frames(buf)
    return [parse_frame(*r) for r in raw], rest


def strip_preface(buf):
    """Returns (had_preface, rest)."""
    if buf.startswith(PREFACE):
        return True, buf[len(PREFACE):]
    return False, buf
