"""python -m harness.replay_cli <behaviours.json.gz>: replay in this interpreter (its PYTHONHASHSEED is the caller's
choice), print one JSON line {divs, n, steps, digest, digest_masked}; digest covers every byte every endpoint emitted, the text of every
exception and the repr of every event, in order."""
import gzip
import hashlib
import json
import sys

from . import driver, replay


def main():
    with gzip.open(sys.argv[1], 'rt') as fh:
        c = json.load(fh)
    cat = replay.load_catalogue()
    total = hashlib.sha256()
    masked = hashlib.sha256()
    divs = []
    steps = 0
    orig = driver.Session

    class S(orig):
        def __init__(self, meta):
            super().__init__(meta)
            sessions.append(self)
    sessions = []
    per = []
    mask_per = len(sys.argv) > 2 and sys.argv[2] == 'masked'
    driver.Session = S
    for i, t in enumerate(c['traces']):
        del sessions[:]
        r = replay.run_behaviour(c['meta'], t, cat)
        steps += len(t)
        if r is not None:
            r['behaviour'] = i
            divs.append(r)
        one = hashlib.sha256()
        for s in sessions:
            one.update(s.digest_masked.digest() if mask_per else s.digest.digest())
        per.append(one.hexdigest()[:16])
        for s in sessions:
            total.update(s.digest.digest())
            masked.update(s.digest_masked.digest())
    print(json.dumps({'divs': divs, 'n': len(c['traces']), 'steps': steps, 'digest': total.hexdigest(), 'digest_masked': masked.hexdigest(), 'per': per}))


if __name__ == '__main__':
    main()
