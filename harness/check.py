"""./check <property> [--tier quick|thorough] [--seed N]   |   ./check replay <path>

For one property: (1) re-execute the known findings listed for it, (2) run TLC on each of its
scenario models (property formulas as invariants + one witness behaviour per distinct
(state, step)), (3) replay every behaviour into real H2Connection objects from /repo's working
tree and compare with the model's predictions, (4) write evidence/<property>.json.

Exit 0: the property held on everything explored.  Exit 1 + "VIOLATION property=<id> replay=<path>":
the code disagrees with the model in a field this property is about, or a property formula failed.
Exit 2: the machinery itself failed (TLC error, harness crash); nothing is claimed.
"""
import argparse
import collections
import hashlib
import json
import os
import random
import shutil
import sys
import time

ROOT = os.path.dirname(os.path.dirname(os.path.abspath(__file__)))
sys.path.insert(0, ROOT)

from harness import tlcrun, replay, props, findings, tv, gen  # noqa: E402

WORK = os.path.join(ROOT, '.work')
EVID = os.environ.get('VERIF_EVIDENCE_DIR') or os.path.join(ROOT, 'evidence')   # the override is for tools/seedcheck.sh only
REPLAYS = os.path.join(WORK, 'replays')

CFG_TEMPLATE = """CONSTANTS
  Roles <- mcRoles
  CallsC <- mcCallsC
  CallsS <- mcCallsS
  AdvC <- mcAdvC
  AdvS <- mcAdvS
  Setup <- mcSetup
  CfgC <- mcCfgC
  CfgS <- mcCfgS
  MaxClosed <- mcMaxClosed
  QSids <- mcQSids
  MaxChan <- mcMaxChan
  MaxK <- mcMaxK
  MaxDepth = %(depth)d
  EMIT = %(emit)s
INIT Init
NEXT Next
CHECK_DEADLOCK FALSE
VIEW %(view)s
INVARIANT EmitMeta
INVARIANT CountCases
POSTCONDITION PrintCases
%(invariants)s
"""


def cfg_text(depth, emit, invariants, view=None):
    inv = '\n'.join('INVARIANT %s' % i for i in (['EmitTrace'] if emit else []) + list(invariants))
    return CFG_TEMPLATE % dict(depth=depth, emit='TRUE' if emit else 'FALSE',
                               view=view or ('GenView' if emit else 'View'), invariants=inv)


def nontrivial(step):
    """A step is non-trivial when the model predicts anything beyond a bare refusal: frames, events, or success."""
    p = step['p']
    return bool(p['o']) or bool(p['e']) or p['r']['c'] == 'ok'


def step_key(step):
    return hashlib.sha1(json.dumps([step.get('a'), step.get('x'), step.get('c'), step.get('fs'), step.get('k'), step['p']],
                                   sort_keys=True).encode()).hexdigest()


def run_scenario(pid, sc, tier, seed, catalogue, out):
    """Runs one scenario model; appends to out (dict of accumulators).  Returns list of divergences."""
    mod = sc['module']
    depth = sc['depth'][tier]
    invs = sc.get('invariants', [])
    wd = os.path.join(WORK, '%s-%s-%d-%s' % (pid, tier, os.getpid(), mod))
    shutil.rmtree(wd, ignore_errors=True)
    t0 = time.time()
    sim = None
    if sc.get('simulate') and sc['simulate'].get(tier):
        s = sc['simulate'][tier]
        sim = {'spec': 'num=%d' % s['num'], 'depth': s['depth'], 'seed': seed + 1}
    res = tlcrun.run(mod, cfg_text(depth, True, invs, view=sc.get('view')), wd, workers=1, timeout=sc.get('timeout', 1500 if tier == 'quick' else 7200))
    rec = {'module': mod, 'depth': depth, 'view': sc.get('view', 'GenView'), 'invariants': invs, 'tlc_wall_s': round(res['wall_s'], 1),
           'states': res['distinct'], 'transitions': res['generated'], 'cmd': res['cmd']}
    add_cases(out, 'model checking', res.get('cases', {}))
    out['scenarios'].append(rec)
    if res['error'] or res['meta'] is None:
        out['machinery'].append('%s: TLC failed: %s' % (mod, (res['error'] or 'no META line')[:1500]))
        shutil.rmtree(wd, ignore_errors=True)
        return []
    if res['violation']:
        out['formula_violations'].append({'module': mod, 'what': res['violation'],
                                          'detail': res.get('violation_detail', '')[:4000]})
    traces = replay.maximal(res['traces'])
    meta = res['meta']
    rec['behaviours'] = len(traces)
    # coverage accounting: distinct (step, prediction) pairs and which of them are non-trivial
    for t in res['traces']:
        s = t[-1]
        k = step_key(s)
        if k not in out['pairs']:
            out['pairs'][k] = nontrivial(s)
        out['ops'][(s['a'], (s.get('c') or {}).get('op', s.get('fs', [{}])[0].get('t') if s.get('fs') else 'dlv'),
                    s['p']['r']['c'])] += 1
        for d in s.get('dev', []):
            out['dev_seen'][d] += 1
    t1 = time.time()
    if sc.get('chunked'):
        # C21: the same behaviours, every receive_data() input cut into random pieces (seeded)
        meta = dict(meta, chunk_seed=seed * 7919 + 1)
        rec['chunked'] = True
    if sc.get('hashseeds'):
        divs, nb, ns = replay_under_hashseeds(meta, traces, wd, seed, rec, out)
    else:
        divs, nb, ns = replay.replay_all(meta, traces, catalogue, procs=sc.get('procs', 12))
    rec['replay_wall_s'] = round(time.time() - t1, 1)
    rec['steps_replayed'] = ns
    out['behaviours'] += nb
    out['steps'] += ns
    if traces and len(out['samples']) < 3:
        rnd = random.Random(seed)
        t = traces[rnd.randrange(len(traces))]
        out['samples'].append({'scenario': mod, 'behaviour': [
            dict({k: s[k] for k in s if k not in ('dev', 'p')},
                 **({'predicted_and_observed': {k: s['p'][k] for k in ('r', 'o', 'e', 'q')}} if 'p' in s else {}))
            for s in t][:8]})
    for d in divs:
        d['scenario'] = mod
        d['meta'] = meta
        d['steps'] = traces[d['behaviour']]
        d['chunked'] = bool(sc.get('chunked'))
    shutil.rmtree(wd, ignore_errors=True)
    return divs


def replay_under_hashseeds(meta, traces, wd, seed, rec, out):
    """C28: replay the behaviours in two fresh interpreters with different PYTHONHASHSEED values; both must agree
    with the (deterministic) model, and the digests of every emitted byte must be equal."""
    import gzip
    import subprocess
    os.makedirs(wd, exist_ok=True)
    f = os.path.join(wd, 'behaviours.json.gz')
    with gzip.open(f, 'wt') as fh:
        json.dump({'meta': meta, 'traces': traces}, fh)
    hs = [str(1 + (seed * 2654435761 + 12345) % 4294967290), str(1 + (seed * 40503 + 977) % 4294967290)]
    if hs[0] == hs[1]:
        hs[1] = str(int(hs[1]) + 1)
    procs = [subprocess.Popen([sys.executable, '-m', 'harness.replay_cli', f] + (['masked'] if ADDRESS_FINDING in ALIVE else []), cwd=ROOT, stdout=subprocess.PIPE, text=True,
                              env=dict(os.environ, PYTHONHASHSEED=h)) for h in hs]
    results = []
    for p, h in zip(procs, hs):
        o, _ = p.communicate()
        try:
            results.append(json.loads(o.strip().splitlines()[-1]))
        except Exception:
            out['machinery'].append('replay under PYTHONHASHSEED=%s failed: %s' % (h, o[-500:]))
            return [], 0, 0
    rec['hashseeds'] = hs
    rec['output_digests'] = [r['digest'] for r in results]
    divs = results[0]['divs'] + results[1]['divs']
    rec['output_digests_masked'] = [r['digest_masked'] for r in results]
    differ = results[0]['digest'] != results[1]['digest']
    if differ and results[0]['digest_masked'] == results[1]['digest_masked'] and ADDRESS_FINDING in ALIVE:
        rec['only_known_address_difference'] = True     # reported as KNOWN-FINDING (re-executed above), nothing else differs
        differ = False
    if differ:
        divs.append({'kind': 'diverged', 'phase': 'step', 'step': 0, 'fields': ['o'], 'call': None, 'a': 'call', 'x': '?',
                     'expected': {'o': 'digest ' + results[0]['digest']}, 'observed': {'o': 'digest ' + results[1]['digest']},
                     'dev': [], 'behaviour': next((i for i, (x, y) in enumerate(zip(results[0]['per'], results[1]['per'])) if x != y), 0),
                     'what': 'emitted bytes, exception texts or event reprs differ between PYTHONHASHSEED=%s and PYTHONHASHSEED=%s' % tuple(hs)})
    return divs, results[0]['n'] + results[1]['n'], results[0]['steps'] + results[1]['steps']


def _gen_job(args):
    profile, flavour, seed, length, max_closed, chaos, chunked, cfg = args
    t = gen.trace(profile, flavour, seed, length, max_closed=max_closed, chaos=chaos, chunk_seed=(seed * 7919 + 1) if chunked else None,
                  cfg=cfg)
    return t


def _cfg(**off):
    one = dict({'vi': True, 'ni': True, 'vo': True, 'no': True, 'enc': False}, **off)
    return {'c': one, 's': dict(one)}


CFG_ROTATION = [_cfg(vi=False), _cfg(ni=False), _cfg(vo=False), _cfg(no=False), _cfg(vi=False, ni=False), _cfg(vo=False, no=False),
                _cfg(enc=True)]


def record_traces(pid, tier, seed):
    """Random executions of the real code (current tree), recorded by harness/gen.py in worker processes."""
    import multiprocessing
    jobs = []
    for e in props.TV.get(pid, []):
        n = e['n'][tier]
        for i in range(n):
            mc = e.get('max_closed', [None])
            if 'cfgs' in e:
                cfgs = e['cfgs'][:2] if tier == 'quick' else e['cfgs']
                cfg = cfgs[i % len(cfgs)]
            else:
                # every fourth execution runs under a non-default configuration (validation / normalisation switches and
                # header_encoding in rotation): the properties hold "under any configuration" unless they say otherwise
                cfg = CFG_ROTATION[(seed + i // 4) % len(CFG_ROTATION)] if i % 4 == 3 else None
            jobs.append((e['profile'], e['flavour'], seed * 1000003 + i, e['length'][tier], mc[i % len(mc)], e.get('chaos'),
                         bool(e.get('chunked')), cfg))
    if not jobs:
        return []
    ctx = multiprocessing.get_context('fork')
    with ctx.Pool(min(12, len(jobs))) as pool:
        return pool.map(_gen_job, jobs, chunksize=max(1, len(jobs) // 48))


def record_under_hashseed(pid, tier, seed, hashseed):
    """C28: the same random programs recorded in a fresh interpreter with another PYTHONHASHSEED."""
    import subprocess
    code = ('import sys, json; sys.path.insert(0, %r); from harness import check; '
            'ts = check.record_traces(%r, %r, %d); json.dump(ts, sys.stdout)' % (ROOT, pid, tier, seed))
    p = subprocess.run([sys.executable, '-c', code], cwd=ROOT, stdout=subprocess.PIPE, stderr=subprocess.PIPE, text=True,
                       env=dict(os.environ, PYTHONHASHSEED=str(hashseed)))
    if p.returncode != 0:
        raise RuntimeError('recording under PYTHONHASHSEED=%s failed: %s' % (hashseed, p.stderr[-800:]))
    return json.loads(p.stdout)


def run_tv(pid, tier, seed, out):
    """Code -> spec: record random executions, let TLC judge them against spec/Trace.tla.  Returns divergence records in
    the same shape the spec -> code replay produces (plus kind 'formula-on-trace' for a property formula that failed on a
    state of a recorded execution)."""
    if not props.TV.get(pid):
        return []
    t0 = time.time()
    try:
        traces = record_traces(pid, tier, seed)
        if any(e.get('hashseeds') for e in props.TV[pid]):
            hs = 1 + (seed * 2654435761 + 977) % 4294967290
            other = record_under_hashseed(pid, tier, seed, hs)
            a = json.dumps([[t['id'], t['steps']] for t in traces], sort_keys=True)
            b = json.dumps([[t['id'], t['steps']] for t in other], sort_keys=True)
            out['tv']['hashseed_runs'] = [os.environ.get('PYTHONHASHSEED', 'random'), str(hs)]
            out['tv']['hashseed_equal'] = (a == b)
            if a != b and ADDRESS_FINDING in ALIVE:
                for ts in (traces, other):
                    for t in ts:
                        for s_ in t['steps']:
                            if s_.get('p', {}).get('x'):
                                s_['p']['x']['exc'] = driver_mask(s_['p']['x']['exc'])
                a = json.dumps([[t['id'], t['steps']] for t in traces], sort_keys=True)
                b = json.dumps([[t['id'], t['steps']] for t in other], sort_keys=True)
                out['tv']['hashseed_equal_but_for_known_address'] = (a == b)
            if a != b:
                k = next((i for i, (x, y) in enumerate(zip(traces, other)) if x['steps'] != y['steps']), 0)
                j = next((i for i, (x, y) in enumerate(zip(traces[k]['steps'], other[k]['steps'])) if x != y), 0)
                out['tv']['divs'].append({'kind': 'diverged', 'phase': 'step', 'step': j + 1, 'fields': ['r', 'o', 'e'], 'a': 'call', 'x': '?',
                                          'call': None, 'dev': [], 'dev_before': [], 'scenario': 'trace ' + traces[k]['id'],
                                          'what': 'the same random program recorded under two PYTHONHASHSEED values differs from step %d on' % (j + 1),
                                          'meta': traces[k]['meta'], 'steps': None, 'tv_trace': {'id': traces[k]['id'], 'meta': traces[k]['meta'],
                                                                                           'steps': traces[k]['steps'][:j + 1]}})
    except Exception as e:
        out['machinery'].append('trace recording failed: %r' % (e,))
        return []
    rec_s = time.time() - t0
    wd = os.path.join(WORK, '%s-%s-%d-tv' % (pid, tier, os.getpid()))
    res, stats = tv.validate(traces, wd)
    shutil.rmtree(wd, ignore_errors=True)
    add_cases(out, 'recorded executions', stats.get('cases', {}))
    tvo = out['tv']
    tvo.update({'traces': len(traces), 'steps': sum(len(t['steps']) for t in traces), 'record_wall_s': round(rec_s, 1),
                'tlc_wall_s': stats['tlc_wall_s'], 'tlc_runs': stats['tlc_runs'], 'states': stats['distinct'],
                'transitions': stats['generated'], 'cmd': stats['cmd']})
    if stats['errors']:
        out['machinery'].append('trace validation: TLC failed: ' + stats['errors'][0][:1500])
        return []
    verdicts = collections.Counter()
    divs = []
    own = set(props.FORMULAS.get(pid, []))
    steps_validated = 0
    for t, r in zip(traces, res):
        verdicts[r['k']] += 1
        steps_validated += r['at'] if r['k'] in ('rejected', 'cut') else len(t['steps'])
        for s_ in t['steps'][: (r['at'] if r['k'] in ('rejected', 'cut') else len(t['steps']))]:
            k = step_key(s_)
            if k not in out['pairs']:
                out['pairs'][k] = nontrivial(s_)
        if r['k'] == 'missing':
            out['machinery'].append('trace validation: no verdict for trace %s' % t['id'])
            continue
        if r['k'] == 'rejected':
            st = t['steps'][r['at'] - 1]
            obs = st['p']
            fields = driver_fields(r['pred'], obs, r['fields'])
            pend_types = []
            d = {'kind': 'diverged', 'phase': 'step', 'step': r['at'], 'fields': fields,
                 'call': st.get('c', st.get('fs', st.get('k'))), 'a': st['a'], 'x': st['x'],
                 'expected': {k.split('.')[0]: r['pred'].get(k.split('.')[0]) for k in fields},
                 'observed': {k.split('.')[0]: obs.get(k.split('.')[0]) for k in fields},
                 'dev': r.get('dev') or [], 'dev_before': r.get('devb') or [], 'scenario': 'trace ' + t['id'],
                 'pre_z': prev_z(t, r['at']), 'obs_z': st['p'].get('z'), 'obs_r': st['p'].get('r'),
                 'meta': t['meta'], 'steps': None, 'pend_types': pend_types, 'chunked': t.get('chunk_seed') is not None,
                 'tv_trace': {'id': t['id'], 'meta': t['meta'], 'steps': [strip_obs(x) for x in t['steps'][:r['at']]]}}
            divs.append(d)
        for pf in r['propfails']:
            tvo['propfails'][pf['formula']] += 1
            if pf['formula'] in own:
                st = t['steps'][pf['at'] - 1] if pf['at'] >= 1 else {}
                divs.append({'kind': 'formula-on-trace', 'what': 'formula %s is false in the state after step %d of recorded trace %s'
                             % (pf['formula'], pf['at'], t['id']), 'scenario': 'trace ' + t['id'], 'fields': [], 'call': st.get('c', st.get('fs', st.get('k'))),
                             'a': st.get('a'), 'x': st.get('x'), 'dev': pf.get('dev') or [], 'dev_before': [], 'meta': t['meta'], 'steps': None,
                             'tv_trace': {'id': t['id'], 'meta': t['meta'], 'steps': [strip_obs(x) for x in t['steps'][:pf['at']]]}})
    tvo['verdicts'] = dict(verdicts)
    tvo['steps_validated'] = steps_validated
    if traces and not tvo.get('sample'):
        rnd = random.Random(seed)
        t = traces[rnd.randrange(len(traces))]
        tvo['sample'] = {'trace': t['id'], 'first_steps': [dict(strip_obs(x), observed={k: x['p'][k] for k in ('r', 'o', 'e')}) for x in t['steps'][:6]]}
    out['behaviours'] += len(traces)
    out['steps'] += steps_validated
    return divs


def record_corpus(pid, tier, wd):
    """Runs (part of) the repository's own test suite with the recording plugin against the current tree; returns the traces."""
    import subprocess
    files = props.ALL_TESTS if tier == 'thorough' else props.CORPUS.get(pid, [])
    if not files:
        return [], None
    os.makedirs(wd, exist_ok=True)
    outf = os.path.join(wd, 'corpus.json')
    src = os.environ.get('H2_REPO_SRC', '/repo/src')
    env = dict(os.environ, PYTHONPATH=src + os.pathsep + ROOT, REC_OUT=outf, PYTHONHASHSEED='0')
    p = subprocess.run([sys.executable, '-m', 'pytest', '-q', '-p', 'no:cacheprovider', '-p', 'harness.recplug', '--no-header',
                        '-o', 'addopts='] + files, cwd='/repo', env=env, stdout=subprocess.PIPE, stderr=subprocess.STDOUT, text=True)
    if not os.path.exists(outf):
        return None, 'recording the test suite failed: ' + p.stdout[-800:]
    traces = json.load(open(outf))
    if tier != 'thorough' and len(traces) > 80:
        # quick tier: an evenly spread selection (the thorough tier validates every recorded connection)
        k = len(traces) / 80.0
        traces = [traces[int(i * k)] for i in range(80)]
    return traces, None


def run_corpus(pid, tier, seed, out):
    """Code -> spec on the repository's own tests: what they do to every H2Connection is recorded and judged by TLC."""
    wd = os.path.join(WORK, '%s-%s-%d-corpus' % (pid, tier, os.getpid()))
    t0 = time.time()
    traces, err = record_corpus(pid, tier, wd)
    co = out['corpus']
    if err:
        out['machinery'].append(err)
        shutil.rmtree(wd, ignore_errors=True)
        return []
    if not traces:
        shutil.rmtree(wd, ignore_errors=True)
        return []
    rec_s = time.time() - t0
    res, stats = tv.validate(traces, wd, per_shard=60)
    shutil.rmtree(wd, ignore_errors=True)
    add_cases(out, 'repository tests', stats.get('cases', {}))
    co.update({'tests': 'the whole suite' if tier == 'thorough' else props.CORPUS.get(pid, []), 'connections_recorded': len(traces),
               'steps': sum(len(t['steps']) for t in traces), 'record_wall_s': round(rec_s, 1), 'tlc_wall_s': stats['tlc_wall_s'],
               'tlc_runs': stats['tlc_runs'], 'states': stats['distinct'], 'transitions': stats['generated'],
               'recordings_ended_early': dict(collections.Counter((t.get('stopped') or 'complete')[:60] for t in traces))})
    if stats['errors']:
        out['machinery'].append('corpus validation: TLC failed: ' + stats['errors'][0][:1500])
        return []
    verdicts = collections.Counter()
    divs = []
    for t, r in zip(traces, res):
        verdicts[r['k']] += 1
        if r['k'] == 'missing':
            out['machinery'].append('corpus validation: no verdict for %s' % t['id'])
        elif r['k'] == 'rejected':
            st = t['steps'][r['at'] - 1]
            fields = driver_fields(r['pred'], st['p'], r['fields'])
            divs.append({'kind': 'diverged', 'phase': 'step', 'step': r['at'], 'fields': fields,
                         'call': st.get('c', st.get('fs', st.get('k'))), 'a': st['a'], 'x': st['x'],
                         'expected': {k.split('.')[0]: r['pred'].get(k.split('.')[0]) for k in fields},
                         'observed': {k.split('.')[0]: st['p'].get(k.split('.')[0]) for k in fields},
                         'dev': r.get('dev') or [], 'dev_before': r.get('devb') or [], 'scenario': 'repository test ' + t['id'],
                         'pre_z': prev_z(t, r['at']), 'obs_z': st['p'].get('z'), 'obs_r': st['p'].get('r'),
                         'meta': t['meta'], 'steps': None,
                         'what': 'what the repository test %s does to a connection is not a behaviour of the specification from step %d on'
                                 % (t['id'], r['at']),
                         'tv_trace': {'id': t['id'], 'meta': t['meta'], 'steps': [strip_obs(x) for x in t['steps'][:r['at']]]}})
        for s_ in t['steps'][: (r['at'] if r['k'] in ('rejected', 'cut') else len(t['steps']))]:
            k = step_key(s_)
            if k not in out['pairs']:
                out['pairs'][k] = nontrivial(s_)
    co['verdicts'] = dict(verdicts)
    out['behaviours'] += len(traces)
    out['steps'] += co['steps']
    return divs


def run_apalache(pid, out):
    """Unbounded obligations on the pure operators the model shares with the Apalache module (props.APALACHE)."""
    import subprocess
    if pid not in props.APALACHE:
        return []
    mod, obligations = props.APALACHE[pid]
    wd = os.path.join(WORK, '%s-%d-apalache' % (pid, os.getpid()))
    shutil.rmtree(wd, ignore_errors=True)
    os.makedirs(wd)
    shutil.copy(os.path.join(ROOT, 'spec', 'Windows.tla'), wd)
    shutil.copy(os.path.join(ROOT, 'spec', 'apalache', mod + '.tla'), wd)
    res = []
    fails = []
    t0 = time.time()
    for init, inv, length, what in obligations:
        cmd = ['apalache-mc', 'check', '--init=' + init, '--inv=' + inv, '--length=%d' % length, '--out-dir=' + os.path.join(wd, 'out'), mod + '.tla']
        try:
            p = subprocess.run(cmd, cwd=wd, stdout=subprocess.PIPE, stderr=subprocess.STDOUT, text=True, timeout=600)
            ok = 'The outcome is: NoError' in p.stdout
            tail = p.stdout[-600:]
        except subprocess.TimeoutExpired:
            ok, tail = False, 'timeout'
        res.append({'obligation': '%s => %s (length %d): %s' % (init, inv, length, what), 'discharged': ok, 'cmd': ' '.join(cmd[:5] + [mod + '.tla'])})
        if not ok:
            if 'outcome is: Error' in tail or 'violat' in tail.lower():
                fails.append({'kind': 'formula-on-trace', 'what': 'Apalache: obligation %s => %s of %s.tla is not discharged' % (init, inv, mod),
                              'scenario': mod, 'fields': [], 'call': None, 'a': None, 'x': None, 'dev': [], 'dev_before': [], 'meta': None,
                              'steps': None})
            else:
                out['machinery'].append('apalache failed on %s: %s' % (mod, tail[-400:]))
    shutil.rmtree(wd, ignore_errors=True)
    out['apalache'] = {'module': 'spec/apalache/%s.tla (operators of spec/Windows.tla, shared with spec/H2.tla)' % mod,
                       'obligations': len(res), 'discharged': sum(1 for r in res if r['discharged']), 'detail': res,
                       'wall_s': round(time.time() - t0, 1)}
    return fails


ADDRESS_FINDING = 'decode_error_text_embeds_address'
ALIVE = set()


def driver_mask(text):
    from harness import driver
    return driver.mask_addresses(text)


def prev_z(t, at):
    """The state projection the recorded execution observed for the endpoint of step `at` after that endpoint's previous step."""
    x = t['steps'][at - 1].get('x')
    for q in reversed(t['steps'][:at - 1]):
        if q.get('x') == x and 'p' in q:
            return q['p'].get('z')
    return None


def add_cases(out, where, cases):
    """Non-vacuity: in how many of the states TLC evaluated the formulas in, each named case of spec/Scn.tla!Cases was present."""
    acc = out.setdefault('cases', {})
    for n, c in cases.items():
        acc.setdefault(n, collections.Counter())[where] += c


def strip_obs(s):
    return {k: v for k, v in s.items() if k != 'p'}


def driver_fields(pred, obs, fields):
    """TLC names the top-level fields that differ; for the stream table name the attributes (the lenses use them)."""
    from harness import driver
    try:
        fine = driver.diff(pred, obs)
        return fine or list(fields)
    except Exception:
        return list(fields)


def write_replay(pid, n, d):
    os.makedirs(REPLAYS, exist_ok=True)
    p = os.path.join(REPLAYS, '%s-%d-%d.json' % (pid, os.getpid(), n))
    json.dump({'property': pid, 'scenario': d.get('scenario'), 'meta': d.get('meta'), 'steps': d.get('steps'),
               'tv_trace': d.get('tv_trace'),
               'divergence': {k: d[k] for k in d if k not in ('meta', 'steps', 'tv_trace')}}, open(p, 'w'), indent=1)
    return p


def do_check(pid, tier, seed):
    t0 = time.time()
    spec = props.PROPS[pid]
    catalogue = replay.load_catalogue()
    out = {'scenarios': [], 'machinery': [], 'formula_violations': [], 'pairs': {}, 'ops': collections.Counter(),
           'dev_seen': collections.Counter(), 'behaviours': 0, 'steps': 0, 'samples': [],
           'tv': {'divs': [], 'propfails': collections.Counter()}, 'corpus': {}}
    violations = []
    known_lines = []
    notes = []

    # (1) known findings of this property: re-executed against the current tree
    for kf in findings.for_property(pid):
        status, detail = findings.reexecute(kf, catalogue)
        if status == 'still':
            known_lines.append('KNOWN-FINDING: property=%s %s: %s' % (pid, kf['id'], kf['what']))
        elif status == 'changed':
            # the recorded failure no longer reproduces as recorded: not a verdict by itself -- the scenario models decide
            notes.append('NOTE: property=%s finding %s no longer reproduces as recorded (fields %s differ)' % (pid, kf['id'], detail))
        elif status == 'harness':
            out['machinery'].append('finding %s: %s' % (kf['id'], detail))

    # every recorded finding (of any property) is re-executed: on a deviation branch whose finding still reproduces exactly,
    # the as-built model is still the right prediction and steps on/after it are judged like any other
    alive = set()
    for kf in findings.load().get('findings', []):
        try:
            if findings.reexecute(kf, catalogue)[0] == 'still':
                alive.add(kf['deviation'])
        except Exception:
            pass
    ALIVE.clear()
    ALIVE.update(alive)

    # (2)+(3) scenario models: spec -> code
    all_divs = []
    for sc in spec['scenarios']:
        if tier not in sc['depth']:
            continue
        all_divs += run_scenario(pid, sc, tier, seed, catalogue, out)
    n_model_behaviours = out['behaviours']
    # (4) recorded random executions: code -> spec
    all_divs += run_tv(pid, tier, seed, out)
    all_divs += out['tv'].pop('divs')
    # (5) the repository's own tests, recorded: code -> spec
    all_divs += run_corpus(pid, tier, seed, out)
    # (6) unbounded obligations (Apalache), where registered
    all_divs += run_apalache(pid, out)
    foreign = collections.Counter()
    tainted = collections.Counter()
    for d in all_divs:
        if d['kind'] == 'harness':
            out['machinery'].append('replay harness failure in %s: %s' % (d['scenario'], d['why'][-800:]))
            continue
        if d['kind'] == 'formula-on-trace':
            violations.append(d)
            continue
        if props.tainted(d, alive):
            # the model reached this step through a marked deviation branch (a known finding): what it predicts there is
            # the recorded defective behaviour, and code that behaves differently there is not judged by this check
            tainted[','.join(sorted(d['dev']))] += 1
        elif props.in_lens(pid, d):
            violations.append(d)
        else:
            foreign[','.join(d['fields'])] += 1
    for fv in out['formula_violations']:
        violations.append({'kind': 'formula', 'scenario': fv['module'], 'what': fv['what'], 'detail': fv['detail'],
                           'meta': None, 'steps': None})

    for l in known_lines + notes:
        print(l)
    # report at most a handful of distinct violations
    seen = set()
    nrep = 0
    for v in violations:
        key = (v.get('scenario'), json.dumps(v.get('call'), sort_keys=True)[:200], tuple(v.get('fields', [])), v.get('what'))
        if key in seen:
            continue
        seen.add(key)
        nrep += 1
        if nrep <= 10:
            print('VIOLATION property=%s replay=%s' % (pid, write_replay(pid, nrep, v)))
            print('  scenario=%s kind=%s fields=%s call=%s' % (v.get('scenario'), v.get('kind'), v.get('fields'),
                                                              json.dumps(v.get('call'))[:300]))
            if v.get('expected') is not None:
                print('  expected=%s' % json.dumps(v['expected'])[:600])
                print('  observed=%s' % json.dumps(v['observed'])[:600])
            if v.get('what'):
                print('  %s' % v['what'][:600])

    # non-vacuity of the property's formulas in this run: the cases of spec/Scn.tla!Cases that belong to the property
    own_cases = {n: dict(c) for n, c in sorted(out.get('cases', {}).items()) if n.startswith(pid + '/')}
    never = [n for n, c in own_cases.items() if sum(c.values()) == 0]
    for n in never:
        print('NOTE: property=%s the situation "%s" did not occur in this run (formula checked vacuously for it)' % (pid, n))
    nontriv = sum(1 for v in out['pairs'].values() if v)
    states = sum(s['states'] for s in out['scenarios']) + out['tv'].get('states', 0) + out['corpus'].get('states', 0)
    trans = sum(s['transitions'] for s in out['scenarios']) + out['tv'].get('transitions', 0) + out['corpus'].get('transitions', 0)
    ev = {
        'property_id': pid, 'tier': tier, 'seed': seed, 'level': spec.get('level', 'model_checking'),
        'coverage': {
            'states': states, 'transitions': trans,
            'traces_validated_against_impl': out['behaviours'],
            'model_behaviours_replayed_into_code': n_model_behaviours,
            'recorded_traces_validated_by_tlc': out['tv'].get('traces', 0),
            'trace_validation': dict(out['tv'], propfails=dict(out['tv']['propfails'])),
            'repository_tests_recorded_and_validated': out['corpus'],
            'apalache_inductive_obligations': out.get('apalache', {}),
            'deviation_branches_still_reproducing': sorted(alive),
            'steps_replayed': out['steps'],
            'evaluations': out['behaviours'],
            'distinct_nontrivial': nontriv,
            'distinct_step_prediction_pairs': len(out['pairs']),
            'rule': 'Two directions. (a) spec -> code: TLC enumerates every distinct (model state, incoming step) pair of each scenario model up to the depth bound '
                    'and emits one witness behaviour per pair; behaviours that are prefixes of others are dropped; each remaining '
                    'behaviour is replayed step by step into real H2Connection objects. distinct_nontrivial counts distinct '
                    '(step, predicted observation) pairs whose prediction is a success or contains frames or events '
                    '(i.e. not a bare refusal). (b) code -> spec: seeded random programs (harness/gen.py) are executed on real H2Connection '
                    'objects and recorded; TLC validates every recorded step against spec/Trace.tla (observation equal to what the '
                    'specification allows, all property formulas evaluated in every state); their (step, observation) pairs are counted '
                    'in the same way.',
            'samples': out['samples'] or [{'note': 'no behaviour generated'}],
            'scenarios': out['scenarios'],
            'outcome_histogram': {'%s/%s/%s' % k: v for k, v in sorted(out['ops'].items(), key=lambda kv: -kv[1])[:60]},
            'deviation_branches_exercised': dict(out['dev_seen']),
            'foreign_divergence': dict(foreign),
            'divergence_after_known_deviation_not_judged': dict(tainted),
            'notes': notes,
            'known_findings_seen': known_lines,
            'formula_violations': out['formula_violations'],
            'formula_cases_counted_by_tlc': {'of_this_property': own_cases, 'never_present_in_this_run': never,
                                             'all': {n: sum(c.values()) for n, c in sorted(out.get('cases', {}).items())},
                                             'meaning': 'states (model checking: distinct (state, step) edges; recorded executions and repository '
                                                        'tests: recorded steps) in which the named situation of spec/Scn.tla!Cases was present when '
                                                        'TLC evaluated the property formulas'},
            'checker_cmd': 'tlc -workers 1 <scenario>.tla (cfg generated by harness/check.py), then harness/replay.py; '
                           'TRACE_FILE=<recorded traces> tlc -workers 1 MC_TV_*.tla (generated by harness/tv.py, EXTENDS Trace)',
            'trusted_base': ['TLC 2026.09.04 / tla2tools 1.8.0', 'CommunityModules Json', 'harness/wire.py (independent frame codec)',
                             'harness/absn.py (abstraction, no rules)', 'hpack 4.2.0 (third party) for block <-> header list'],
            'exhaustive': False,
        },
        'assumptions': spec.get('assumptions', []) + [
            'bounded instance: alphabets and depth as listed per scenario',
            'the scenario models are the as-built specification (spec/H2.tla with deviation marks); property formulas are '
            'checked by TLC on behaviours that take no marked deviation branch'],
        'wall_s': round(time.time() - t0, 1),
        'violations': len(seen),
    }
    os.makedirs(EVID, exist_ok=True)
    json.dump(ev, open(os.path.join(EVID, pid + '.json'), 'w'), indent=1)
    if out['machinery']:
        for m in out['machinery'][:5]:
            print('MACHINERY-FAILURE: ' + m[:3000], file=sys.stderr)
        return 2
    return 1 if seen else 0


def do_replay(path):
    rec = json.load(open(path))
    catalogue = replay.load_catalogue()
    if rec.get('tv_trace'):
        # a recorded execution: run the same inputs on the current tree, record, and let TLC judge the recording
        from harness import driver
        tr = rec['tv_trace']
        sess = driver.Session(dict(tr['meta'], max_closed=None if tr['meta'].get('max_closed') == 65536 else tr['meta'].get('max_closed')))
        steps = []
        for s_ in tr['steps']:
            obs = sess.step(replay.resolve(s_, catalogue))
            steps.append(dict(s_, p=obs))
        wd = os.path.join(WORK, 'replay-%d-tv' % os.getpid())
        res, stats = tv.validate([{'id': tr['id'], 'meta': tr['meta'], 'steps': steps}], wd)
        shutil.rmtree(wd, ignore_errors=True)
        r = res[0]
        if stats['errors']:
            print('replay: TLC failed: ' + stats['errors'][0][:2000])
            return 2
        print('replay: trace %s: verdict %s at step %s fields %s; formulas failed: %s' % (
            tr['id'], r['k'], r['at'], r['fields'], sorted({f['formula'] for f in r['propfails']})))
        if r['k'] == 'rejected':
            st = steps[r['at'] - 1]
            print('  step: ' + json.dumps(strip_obs(st))[:600])
            for f in r['fields']:
                top = f.split('.')[0]
                print('  %s\n    specification allows: %s\n    code did:             %s' % (
                    f, json.dumps(r['pred'].get(top))[:1500], json.dumps(st['p'].get(top))[:1500]))
        return 1 if (r['k'] == 'rejected' or r['propfails']) else 0
    if rec.get('meta') is None:
        print(json.dumps(rec.get('divergence'), indent=1)[:4000])
        return 0
    r = replay.run_behaviour(rec['meta'], rec['steps'], catalogue)
    if r is None:
        print('replay: every step agrees with the model on the current tree')
        return 0
    print('replay: divergence at %s %s' % (r.get('phase'), r.get('step')))
    print(json.dumps({k: r[k] for k in r if k not in ('meta', 'steps')}, indent=1)[:6000])
    return 1


def main():
    ap = argparse.ArgumentParser()
    ap.add_argument('what')
    ap.add_argument('path', nargs='?')
    ap.add_argument('--tier', default=os.environ.get('VERIF_TIER', 'quick'))
    ap.add_argument('--seed', type=int, default=int(os.environ.get('VERIF_SEED', '0') or 0))
    a = ap.parse_args()
    if a.what == 'replay':
        sys.exit(do_replay(a.path))
    if a.what not in props.PROPS:
        print('unknown property ' + a.what, file=sys.stderr)
        sys.exit(2)
    tier = a.tier if a.tier in ('quick', 'thorough') else 'quick'
    sys.exit(do_check(a.what, tier, a.seed))


if __name__ == '__main__':
    main()
