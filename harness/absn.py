"""Abstraction (alpha) and concretisation (gamma) between h2 API values / wire
bytes and the JSON values the TLA+ specification speaks.

No protocol judgement lives here: functions extract features, intern strings,
and build/parse bytes.  All rules are in spec/*.tla.

Integer convention: every integer in the JSON is the 32-bit two's complement of
the real value, so a wire value v >= 2**31 appears as v - 2**32 (negative).  TLC
integers are 32 bit and JsonDeserialize mangles larger literals.
"""
import string

from . import wire

WS = set(string.whitespace)


def i32(v):
    v = int(v)
    if v >= 2 ** 31:
        v -= 2 ** 32
    return v


def u32(v):
    return v + 2 ** 32 if v < 0 else v


# ------------------------------------------------------------------ payload tags
def payload(tag, n):
    """Deterministic byte pattern for DATA payload [n, tag]."""
    if n == 0:
        return b''
    k = ord(tag[0]) if tag else 0
    return bytes(((k * 7 + i * 13) & 0xFF) for i in range(n))


KNOWN_TAGS = 'ABCDEFGH'


def payload_tag(data):
    n = len(data)
    if n == 0:
        return '-'
    for t in KNOWN_TAGS:
        if payload(t, n) == data:
            return t
    return '?'


def opaque(tag, n=8):
    """PING / GOAWAY debug / ALTSVC opaque bytes from a tag.  'Z' is all zero."""
    if tag == 'Z':
        return b'\0' * n
    if tag == '-':
        return b''
    base = (tag.encode('latin-1') * n)[:n - 1] + b'1' if n > 1 else tag.encode('latin-1')[:n]
    return base[:n]


def opaque_tag(data, n=8):
    if data is None:
        return 'None'
    if data == b'':
        return '-'
    for t in 'ZABCDEFGHopqf':
        if opaque(t, len(data)) == bytes(data):
            return t
    return '?' + bytes(data).hex()


def text(tag):
    """free-form opaque strings (alt-svc origin / field): the tag is the text itself"""
    return tag.encode('latin-1')


def text_tag(b):
    if b is None:
        return 'None'
    if isinstance(b, str):
        return 's:' + b
    return bytes(b).decode('latin-1')


# ------------------------------------------------------------------ header tokens
def tok(name, value, kind='t'):
    """Feature record of one header field as given to / delivered by the API.
    name/value: bytes or str.  kind: 't' tuple, 'H' HeaderTuple, 'N' NeverIndexedHeaderTuple."""
    ty = 'b' if isinstance(name, bytes) else 's'
    n = name.decode('latin-1') if isinstance(name, bytes) else name
    v = value.decode('latin-1') if isinstance(value, bytes) else value
    nl = n.lower().strip()
    vs = v.strip()
    raw_v = value if isinstance(value, bytes) else value.encode('utf-8')
    raw_n = name if isinstance(name, bytes) else name.encode('utf-8')
    try:                                   # the library parses content-length with int(v, 10)
        civ = int(raw_v, 10)
        ci = True
        civ = max(min(civ, 2 ** 31 - 1), -(2 ** 31 - 1))
    except ValueError:
        ci, civ = False, 0
    try:
        raw_n.decode('utf-8')
        raw_v.decode('utf-8')
        u8 = True
    except UnicodeDecodeError:
        u8 = False
    return {
        'n': n, 'v': v, 'ty': ty, 'k': kind,
        'nl': nl,                       # name after lower+strip
        'vs': vs,                       # value after strip
        'vlo': v.lower(),               # value lowercased (te rule)
        'vslo': vs.lower(),
        'nu': any('A' <= c <= 'Z' for c in n),
        'ne': n == '',
        'nw': bool(n) and (n[0] in WS or n[-1] in WS),
        'vlead': bool(v) and v[0] in WS,
        'vtrail': bool(v) and v[-1] in WS,
        'np': n.startswith(':'),        # pseudo-header sigil on the raw name
        'nlp': nl.startswith(':'),      # ... on the normalised name
        'vsn': len(vs),
        'ci': ci, 'civ': civ,           # Python int(value, 10) succeeds / its value (saturated to int32)
        'v1': v.startswith('1'),
        'vs1': vs.startswith('1'),
        'u8': u8,
        'sz': len(raw_n) + len(raw_v) + 32,                 # RFC 7541 4.1 size of the field as given
        'nsz': len(nl.encode('utf-8')) + len(vs.encode('utf-8')) + 32,   # ... after lower+strip
    }


def untok(t):
    """Concrete header field for the API from a token record."""
    from hpack import HeaderTuple, NeverIndexedHeaderTuple
    n, v = t['n'], t['v']
    if t.get('ty', 'b') == 'b':
        n, v = n.encode('latin-1'), v.encode('latin-1')
    k = t.get('k', 't')
    if k == 'H':
        return HeaderTuple(n, v)
    if k == 'N':
        return NeverIndexedHeaderTuple(n, v)
    return (n, v)


def printable(s):
    """TLA+ strings are printable ASCII: every other character is written '?' on both sides."""
    return ''.join(ch if 32 <= ord(ch) < 127 else '?' for ch in s)


def hdr_out(name, value, never_indexed):
    """A decoded header field (from the wire or from an event) as the spec writes it."""
    ty = 'b' if isinstance(name, bytes) else 's'
    n = name.decode('latin-1') if isinstance(name, bytes) else name
    v = value.decode('latin-1') if isinstance(value, bytes) else value
    return {'n': printable(n), 'v': printable(v), 'ni': bool(never_indexed), 'ty': ty}


def event_headers(hs):
    from hpack import NeverIndexedHeaderTuple
    if hs is None:
        return 'None'
    return [hdr_out(h[0], h[1], isinstance(h, NeverIndexedHeaderTuple)) for h in hs]


# ------------------------------------------------------------------ exceptions
H2_EXC = None


def exc_rec(e):
    global H2_EXC
    if e is None:
        return {'c': 'ok', 'e': -1}
    if H2_EXC is None:
        import h2.exceptions as X
        H2_EXC = X
    name = type(e).__name__
    if isinstance(e, H2_EXC.H2Error):
        code = getattr(e, 'error_code', None)
        return {'c': name, 'e': int(code) if code is not None else -1}
    if type(e) in (ValueError, TypeError):
        return {'c': name, 'e': -1}
    return {'c': 'foreign:' + name, 'e': -1}


# ------------------------------------------------------------------ events
def _rel(ev, attr, evs):
    o = getattr(ev, attr, None)
    if o is None:
        return -1
    for i, x in enumerate(evs):
        if x is o:
            return i + 1          # 1-based like TLA+ sequences
    return -2                     # dangling: refers to an object not in this list


def _code(c):
    return int(c) if c is not None else -1


def _changes(cs):
    out = []
    for k, ch in cs.items():
        old = [] if ch.original_value is None else [i32(ch.original_value)]
        out.append([int(k), old, i32(ch.new_value)])
    return out


def events(evs):
    import h2.events as E
    out = []
    for ev in evs:
        if isinstance(ev, E.RequestReceived):
            r = {'t': 'Req', 'sid': ev.stream_id, 'h': event_headers(ev.headers),
                 'se': _rel(ev, 'stream_ended', evs), 'pu': _rel(ev, 'priority_updated', evs)}
        elif isinstance(ev, E.ResponseReceived):
            r = {'t': 'Resp', 'sid': ev.stream_id, 'h': event_headers(ev.headers),
                 'se': _rel(ev, 'stream_ended', evs), 'pu': _rel(ev, 'priority_updated', evs)}
        elif isinstance(ev, E.TrailersReceived):
            r = {'t': 'Trl', 'sid': ev.stream_id, 'h': event_headers(ev.headers),
                 'se': _rel(ev, 'stream_ended', evs), 'pu': _rel(ev, 'priority_updated', evs)}
        elif isinstance(ev, E.InformationalResponseReceived):
            r = {'t': 'Info', 'sid': ev.stream_id, 'h': event_headers(ev.headers),
                 'se': -1, 'pu': _rel(ev, 'priority_updated', evs)}
        elif isinstance(ev, E.DataReceived):
            d = ev.data if ev.data is not None else b''
            r = {'t': 'Data', 'sid': ev.stream_id, 'n': len(d), 'tag': payload_tag(bytes(d)),
                 'fcl': ev.flow_controlled_length if ev.flow_controlled_length is not None else -1,
                 'se': _rel(ev, 'stream_ended', evs)}
        elif isinstance(ev, E.WindowUpdated):
            r = {'t': 'WU', 'sid': ev.stream_id, 'd': i32(ev.delta) if ev.delta is not None else -1}
        elif isinstance(ev, E.StreamEnded):
            r = {'t': 'End', 'sid': ev.stream_id}
        elif isinstance(ev, E.StreamReset):
            r = {'t': 'Reset', 'sid': ev.stream_id, 'code': i32(_code(ev.error_code)), 'rem': bool(ev.remote_reset)}
        elif isinstance(ev, E.PushedStreamReceived):
            r = {'t': 'Push', 'sid': ev.pushed_stream_id, 'par': ev.parent_stream_id,
                 'h': event_headers(ev.headers)}
        elif isinstance(ev, E.RemoteSettingsChanged):
            r = {'t': 'RSet', 'ch': _changes(ev.changed_settings)}
        elif isinstance(ev, E.SettingsAcknowledged):
            r = {'t': 'SAck', 'ch': _changes(ev.changed_settings)}
        elif isinstance(ev, E.PingReceived):
            r = {'t': 'Ping', 'tag': opaque_tag(ev.ping_data)}
        elif isinstance(ev, E.PingAckReceived):
            r = {'t': 'Pong', 'tag': opaque_tag(ev.ping_data)}
        elif isinstance(ev, E.PriorityUpdated):
            r = {'t': 'Prio', 'sid': ev.stream_id, 'w': ev.weight, 'dep': ev.depends_on,
                 'excl': bool(ev.exclusive)}
        elif isinstance(ev, E.ConnectionTerminated):
            r = {'t': 'Term', 'code': i32(_code(ev.error_code)), 'last': ev.last_stream_id,
                 'tag': opaque_tag(ev.additional_data)}
        elif isinstance(ev, E.AlternativeServiceAvailable):
            r = {'t': 'Alt', 'org': text_tag(ev.origin), 'fld': text_tag(ev.field_value)}
        elif isinstance(ev, E.UnknownFrameReceived):
            r = {'t': 'Unk'}
        else:
            r = {'t': 'other:' + type(ev).__name__}
        out.append(r)
    return out


# ------------------------------------------------------------------ emitted bytes -> abstract frames
class Observer:
    """Decodes one endpoint's output stream: independent frame parser + an hpack
    decoder that follows that stream's compression context."""

    def __init__(self, expect_preface):
        from hpack import Decoder
        self.dec = Decoder()
        self.dec.max_header_list_size = 2 ** 24
        self.dec.max_allowed_table_size = 2 ** 32
        self.expect_preface = expect_preface
        self.seen_preface = False
        self.rest = b''
        self.raw = []          # raw parsed frames of the last feed (for the wire-grammar checks)
        self.broken = False    # the compression context could not be followed

    def _decode(self, block):
        from hpack import NeverIndexedHeaderTuple
        if self.broken:
            return 'undecodable'
        try:
            hs = self.dec.decode(block, raw=True)
        except Exception as e:   # an observation, not a crash
            self.broken = True
            return 'undecodable'
        return [hdr_out(h[0], h[1], isinstance(h, NeverIndexedHeaderTuple)) for h in hs]

    def feed(self, data):
        """Returns the list of abstract frames (header blocks merged)."""
        buf = self.rest + data
        pre = False
        # (a client that is asked to initiate the connection a second time writes a second preface: reported as seen)
        if self.expect_preface and buf.startswith(wire.PREFACE):
            buf = buf[len(wire.PREFACE):]
            self.seen_preface = True
            pre = True
        frames, self.rest = wire.parse_frames(buf)
        self.raw = frames
        out = []
        i = 0
        while i < len(frames):
            f = frames[i]
            t = f['t']
            if t in ('HEADERS', 'PUSH_PROMISE'):
                block = f['block']
                nfr = 1
                sizes = [f['len']]
                j = i
                ok = True
                while not frames[j]['eh']:
                    j += 1
                    if j >= len(frames) or frames[j]['t'] != 'CONTINUATION' or frames[j]['sid'] != f['sid']:
                        ok = False
                        break
                    block += frames[j]['block']
                    sizes.append(frames[j]['len'])
                    nfr += 1
                if not ok:
                    out.append({'t': 'BROKENBLOCK', 'sid': f['sid']})
                    i += 1
                    continue
                h = self._decode(block)
                if t == 'HEADERS':
                    r = {'t': 'HEADERS', 'sid': f['sid'], 'es': f['es'], 'h': h,
                         'pr': f['prio'] if f['prio'] is not None else [], 'pad': f['pad']}
                else:
                    r = {'t': 'PP', 'sid': f['sid'], 'pid': f['promised'], 'h': h, 'pad': f['pad']}
                r['_sizes'] = sizes
                r['_bl'] = len(block)
                out.append(r)
                i = j + 1
            else:
                out.append(abs_frame(f))
                i += 1
        if pre:
            out.insert(0, {'t': 'PREFACE'})
        return out


def abs_frame(f):
    t = f['t']
    if t == 'DATA':
        return {'t': 'DATA', 'sid': f['sid'], 'es': f['es'], 'n': len(f['data']),
                'tag': payload_tag(f['data']), 'pad': f['pad']}
    if t == 'RST':
        return {'t': 'RST', 'sid': f['sid'], 'code': i32(f['code'])}
    if t == 'SETTINGS':
        return {'t': 'SET', 'ack': f['ack'], 's': [[i, i32(v)] for i, v in f['settings']]}
    if t == 'PING':
        return {'t': 'PING', 'ack': f['ack'], 'tag': opaque_tag(f['data'])}
    if t == 'GOAWAY':
        return {'t': 'GOAWAY', 'last': f['last'], 'code': i32(f['code']), 'tag': opaque_tag(f['data'])}
    if t == 'WU':
        return {'t': 'WU', 'sid': f['sid'], 'inc': f['inc']}
    if t == 'PRIORITY':
        return {'t': 'PRIO', 'sid': f['sid'], 'w': f['w'], 'dep': f['dep'], 'excl': f['excl']}
    if t == 'ALTSVC':
        return {'t': 'ALT', 'sid': f['sid'], 'org': text_tag(f['origin']), 'fld': text_tag(f['field'])}
    if t == 'CONTINUATION':
        return {'t': 'CONT', 'sid': f['sid']}
    if t == 'MALFORMED':
        return {'t': 'MALFORMED', 'sid': f['sid'], 'why': f['why']}
    return {'t': 'UNKNOWN', 'sid': f['sid'], 'typ': f.get('typ', -1)}


# ------------------------------------------------------------------ abstract frames -> bytes (the adversarial peer)
class Adversary:
    """Builds wire bytes for abstract inbound frames.  Owns an hpack encoder that
    plays the peer's compression context."""

    def __init__(self):
        from hpack import Encoder
        self.enc = Encoder()

    def block(self, toks, mode='ok'):
        if mode == 'bad':
            return b'\xff\xff\xff\xff\xff\xff\xff\xff\xff\xff\xff'      # integer overflow in an index: undecodable
        hs = [untok(t) for t in toks]
        if mode == 'big':                  # decodes to a header list far beyond any advertised MAX_HEADER_LIST_SIZE
            hs = hs + [(b'x-big', b'a' * 70000)]
            return self.enc.encode(hs, huffman=False)
        return self.enc.encode(hs)

    def raw(self, f):
        """A frame given by its octets' structure (typ, fl, sid, len and what the payload holds): the payload is laid out
        canonically and then cut (or, for fixed-size frames, zero-extended) to exactly len octets.  No rule is applied."""
        typ, fl, sid, ln = f['typ'], f['fl'], f['sid'], f['len']
        padded = bool(fl & 0x8)
        pad = f.get('pad', -1)
        if typ == 0:
            if padded:
                if ln == 0:
                    body = b''
                else:
                    npad = min(max(pad, 0), ln - 1)
                    body = bytes([pad & 0xFF]) + payload(f.get('tag', 'B'), ln - 1 - npad) + b'\0' * npad
            else:
                body = payload(f.get('tag', 'B'), ln)
        elif typ in (1, 5):
            body = bytes([max(pad, 0) & 0xFF]) if padded else b''
            if typ == 1 and fl & 0x20:
                pr = f.get('pr') or [16, 0, False]
                body += wire.prio_bytes(pr[0] - 1, pr[1], pr[2])
            if typ == 5:
                body += wire.struct.pack('>I', f.get('pid', 2) & 0xFFFFFFFF)
            body += b'\x82' * f.get('bl', 0) + b'\0' * f.get('apad', 0)
            body = body[:ln]
        elif typ == 9:
            body = b'\x82' * ln
        elif typ == 2:
            body = wire.prio_bytes(f.get('w', 16) - 1, f.get('dep', 0), f.get('excl', False))
        elif typ == 3:
            body = wire.struct.pack('>I', u32(f.get('code', 0)))
        elif typ == 4:
            body = b''.join(wire.struct.pack('>HI', i & 0xFFFF, u32(v)) for i, v in f.get('s', []))
        elif typ == 6:
            body = opaque(f.get('tag', 'A'))
        elif typ == 7:
            dbg = f.get('tag', '-')
            body = wire.struct.pack('>II', f.get('last', 0) & 0x7FFFFFFF, u32(f.get('code', 0))) + (b'' if dbg == '-' else opaque(dbg))
        elif typ == 8:
            body = wire.struct.pack('>I', u32(f.get('inc', 1)))
        elif typ == 10:
            body = wire.struct.pack('>H', f.get('olen', 0) & 0xFFFF) + text(f.get('org', '')) + text(f.get('fld', ''))
        else:
            body = b''
        if typ not in (0, 1, 5, 9):
            body = (body + b'\0' * ln)[:ln]
        assert len(body) == ln, (f, len(body))
        return wire.raw_frame(typ, fl, sid, body)

    def frame(self, f):
        t = f['t']
        if t == 'DATA':
            pad = f.get('pad', -1)
            return wire.data(f['sid'], payload(f.get('tag', 'A'), f['n']), es=f['es'], pad=None if pad < 0 else pad)
        if t in ('HEADERS', 'PP'):
            # bx: the octets of the block as given (HPACK-level fuzzing: the block did not go through the peer's encoder)
            blk = bytes.fromhex(f['bx']) if 'bx' in f else self.block(f['h'], f.get('blk', 'ok'))
            nfr = f.get('frag', 1)
            pad = f.get('pad', -1)
            pad = None if pad < 0 else pad
            parts = [blk]
            if nfr <= 1 and len(blk) > 16000:          # keep every frame within the default MAX_FRAME_SIZE
                parts = [blk[i:i + 16000] for i in range(0, len(blk), 16000)]
            elif nfr > 1:
                k = max(1, len(blk) // nfr)
                parts = [blk[i * k:(i + 1) * k] for i in range(nfr - 1)] + [blk[(nfr - 1) * k:]]
            if t == 'HEADERS':
                pr = f.get('pr', [])
                prio = None if not pr else (pr[0] - 1, pr[1], pr[2])
                out = wire.headers(f['sid'], parts[0], es=f['es'], eh=(len(parts) == 1), prio=prio, pad=pad)
            else:
                out = wire.push_promise(f['sid'], f['pid'], parts[0], eh=(len(parts) == 1), pad=pad)
            for i, p in enumerate(parts[1:]):
                out += wire.continuation(f['sid'], p, eh=(i == len(parts) - 2))
            return out
        if t == 'RST':
            return wire.rst(f['sid'], u32(f['code']))
        if t == 'SET':
            return wire.settings([(i, u32(v)) for i, v in f['s']], ack=f['ack'])
        if t == 'PING':
            return wire.ping(opaque(f['tag']), ack=f['ack'])
        if t == 'GOAWAY':
            return wire.goaway(f['last'], u32(f['code']), opaque(f.get('tag', '-')))
        if t == 'WU':
            return wire.window_update(f['sid'], f['inc'])
        if t == 'PRIO':
            return wire.priority(f['sid'], f['w'] - 1, f['dep'], f['excl'])
        if t == 'ALT':
            return wire.altsvc(f['sid'], text(f['org']), text(f['fld']))
        if t == 'CONT':
            return wire.continuation(f['sid'], b'\x82', eh=f.get('eh', True))
        if t == 'UNKNOWN':
            return wire.raw_frame(f.get('typ', 0xFA), 0, f['sid'], b'xyz')
        if t == 'RAW':
            return self.raw(f)
        raise ValueError('cannot concretise frame %r' % (f,))
