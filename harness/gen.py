"""Random programs for trace validation (code -> spec).

A generator drives real H2Connection objects (through harness/driver.py, the same executor the spec -> code replay
uses) along long random histories and RECORDS what the code did: every step is written in the scenario frame's step
format together with the observation {r, o, e, q, z}.  The recorded traces are then validated by TLC against
spec/Trace.tla.  The generator contains no protocol rules: it looks at the code's own state only to pick inputs
that are likely to be interesting (an open stream, a size right at the window, an id just above the watermark);
whether the code's reaction is right is decided by the specification alone.

Profiles (who acts):  's' one server facing a harness peer, 'c' one client facing a harness peer,
'pair' a client and a server connected by two FIFO channels.
Flavours (what the inputs concentrate on): 'mix', 'flow', 'settings', 'life', 'push', 'headers', 'close', 'misc'.
"""
import json
import random

from . import absn, driver, replay

REQ_OK = ['req_get', 'req_head', 'req_post_cl3', 'req_post_cl0', 'req_get_b', 'req_host_only', 'req_cookies', 'req_str',
          'req_te_ok', 'req_connect_proto', 'req_cl_two']
REQ_OUT_REPAIRABLE = ['req_messy', 'req_secure_pad', 'req_ws_value_nl', 'req_cookie19ws']
REQ_BIG = ['req_big_16379', 'req_big_16380', 'req_big_16383', 'req_big_16384', 'req_big_16385', 'req_big_32768']
RESP_BIG = ['resp_big_16380', 'resp_big_16384', 'resp_big_16385']
REQ_BAD = ['req_nopath', 'req_emptypath', 'req_noauth', 'req_hostmismatch', 'req_te_bad', 'req_dupmethod', 'req_latepseudo',
           'req_custompseudo', 'req_status', 'req_proto_get', 'req_late_bad', 'req_upper', 'req_ws_name', 'req_ws_value',
           'req_conn', 'req_emptyname', 'req_nonutf8', 'req_ws_value_nl', 'req_auth_emptyhost', 'req_emptyauth_host', 'req_cookies_dup', 'empty']
RESP_OK = ['resp200', 'resp200_cl3', 'resp200_cl0', 'resp204', 'resp404', 'resp204_cl3', 'resp304_cl3', 'resp_cl_two']
RESP_OUT_REPAIRABLE = ['resp_messy', 'resp_ws_value_nl']
RESP_BAD = ['resp_method', 'resp_nostatus', 'resp_cl_bad', 'resp_cl_neg', 'resp_status_1xx', 'resp_status_abc',
            'resp_status_empty', 'empty']
INFO = ['info100', 'info103', 'info100_cl3']
TRL = ['trl', 'trl2']
TRL_BAD = ['trl_pseudo']

SETTING_VALUES = {
    1: [0, 1, 100, 4096, 4097, 65536],
    2: [0, 1, 1, 0, 2, -1],
    3: [0, 1, 2, 3, 100, -1],
    4: [0, 1, 5, 10, 100, 16384, 65535, 65536, 1 << 20, 2147483647, -2147483648, -1],
    5: [16384, 16385, 20000, 16777215, 16383, 16777216, 0, -1],
    6: [0, 100, 150, 65536, -1],
    8: [0, 1, 2],
    9: [0, 7],
    0x4242: [0, 5, -1],
}


class G:
    def __init__(self, profile, flavour, seed, max_closed=None, cfg=None, qsids=(1, 2, 3, 4, 5), chaos=None, chunk_seed=None):
        self.rng = random.Random(seed)
        # probability that a step is drawn from the whole grammar instead of the inputs that fit the current state
        self.chaos = chaos if chaos is not None else self.rng.choice([0.03, 0.08, 0.2])
        self.profile = profile
        self.flavour = flavour
        roles = ['c', 's'] if profile == 'pair' else [profile]
        cfg = cfg or {}
        full = {'vi': True, 'ni': True, 'vo': True, 'no': True, 'enc': False}
        self.meta = {'roles': roles, 'qsids': list(qsids), 'max_closed': max_closed if max_closed is not None else 65536,
                     'cfg': {'c': dict(full, **cfg.get('c', {})), 's': dict(full, **cfg.get('s', {}))}, 'setup': []}
        # chunk_seed: every receive_data() input is fed in seeded random pieces (C21); not part of the meta TLC sees
        self.sess = driver.Session(dict(self.meta, max_closed=max_closed, chunk_seed=chunk_seed))
        self.chunk_seed = chunk_seed
        self.cat = replay.load_catalogue()
        self.steps = []
        self.pair = profile == 'pair'
        self.adv_next = {'c': 2, 's': 1}       # next stream id the harness peer would open towards x
        self.lost = False
        self.stop = False
        self.held = {}
        # a third of the flow-control traces acknowledge received data rarely, so that the advertised windows run down to the
        # point where a frame of permitted size can overrun them
        self.starve = self.rng.random() < 0.35
        self.hold = False                      # steps that leave their output in the buffer: only after the handshake
        self.unacked = {'c': {}, 's': {}}      # bytes received and not yet acknowledged, per stream (an input heuristic only)

    # ------------------------------------------------------------ plumbing
    def do(self, s):
        if s['a'] in ('call', 'recv') and self.rng.random() < ({'close': 0.3}.get(self.flavour, 0.05) if self.hold else 0):
            # the application does not take the output after this step: it stays in the connection's buffer (C19: a received
            # GOAWAY discards it; C02/C21: a later data_to_send returns all of it, in order)
            s = dict(s, nf=True)
        held = self.held.get(s['x'], False)
        if s['a'] == 'call' and s['c'].get('op') in ('hdr', 'push') and 'big' in str(s['c'].get('h')):
            # a header list whose block needs several frames: the specification has to be told the length of the block, which
            # is observed on the output of the call -- so the call's output is taken, and is the call's alone
            s = {k: v for k, v in s.items() if k != 'nf'}
            if held:
                s = dict(s, c=dict(s['c'], h='req_get' if s['c']['h'].startswith('req') else 'resp200'))
        self.held[s['x']] = bool(s.get('nf'))
        if s['a'] == 'call' and s['c'].get('op') in ('hdr', 'push') and not s.get('nf') and not held:
            # observe the sizes of the frames that carry the header block (when the step's output is this step's alone)
            s = dict(s, c=dict(s['c'], sz=True))
        obs = self.sess.step(replay.resolve(s, self.cat))
        s = dict(s)
        if self.chunk_seed is not None and s['a'] in ('recv', 'dlv') and obs['r']['c'] != 'ok':
            # fed in pieces, the input stops at the piece that raised: the rest of the input buffer is not comparable with the
            # one-call prediction, and the recording ends here
            obs = dict(obs, z=dict(obs['z'], pend='unreadable', hb='unreadable'))
            self.stop = True
        if s['a'] == 'call' and s['c'].get('sz') and self.sess.last_block_lens:
            # the length of the HPACK block the call wrote is logged with the call: the specification does not model
            # Huffman / dynamic-table coding, it is told the length and predicts how the block is cut into frames
            s['c'] = dict(s['c'], bl=self.sess.last_block_lens[0])
        s['p'] = obs
        self.steps.append(s)
        return obs

    def call(self, x, c):
        return self.do({'a': 'call', 'x': x, 'c': c})

    def recv(self, x, fs):
        return self.do({'a': 'recv', 'x': x, 'fs': fs})

    def dlv(self, x, k):
        return self.do({'a': 'dlv', 'x': x, 'k': k})

    def z(self, x):
        return self.sess.eps[x].zstate()

    def conn(self, x):
        return self.sess.eps[x].conn

    def streams(self, x):
        z = self.z(x)
        ss = z['streams'] if isinstance(z.get('streams'), list) else []
        return [dict(t, hs=t['hs'] == 'T', ts=t['ts'] == 'T', hr=t['hr'] == 'T', tr=t['tr'] == 'T') for t in ss]

    def pick_sid(self, x, prefer_open=True, kind=None):
        """A stream id for a step on endpoint x: mostly a live one, sometimes closed / unknown / zero."""
        r = self.rng
        ss = self.streams(x)
        live = [s['sid'] for s in ss if s['st'] != 'CLOSED']
        z = self.z(x)
        hi = max([z.get('hiIn', 0) or 0, z.get('hiOut', 0) or 0, 1])
        p = r.random()
        if live and p < 0.8:
            return r.choice(live)
        if ss and p < 0.86:
            return r.choice(ss)['sid']
        if p < 0.93:
            return r.randrange(1, hi + 4)
        return r.choice([hi + 1, hi + 2, hi + 7, 0 if kind == 'frame' else 1])

    # ------------------------------------------------------------ preambles
    def handshake(self):
        r = self.rng
        if self.flavour == 'upgrade':
            # the connection starts as an h2c upgrade: stream 1 exists half-closed on both sides
            lit = r.choice([[], [[4, 100], [3, 5]], [[1, 0], [5, 16385]], [[2, 0], [6, 200]], [[4, 2147483647]]])
            if self.pair:
                if r.random() < 0.3:
                    self.call('c', {'op': 'set', 's': self.valid_set_pairs('c', False)})
                self.call('c', {'op': 'upg', 'src': 'none', 's': []})
                self.call('s', {'op': 'upg', 'src': r.choice(['peer', 'peer', 'peer', 'none']), 's': []})
                self.dlv('s', len(self.sess.chan['s']))
                self.dlv('c', len(self.sess.chan['c']))
                return
            x = self.profile
            self.call(x, {'op': 'upg', 'src': 'lit' if lit else 'none', 's': lit})
            self.recv(x, [{'t': 'SET', 'ack': False, 's': []}])
            if r.random() < 0.8:
                self.recv(x, [{'t': 'SET', 'ack': True, 's': []}])
            return
        if self.pair:
            self.call('c', {'op': 'init'})
            self.call('s', {'op': 'init'})
            self.dlv('s', 1)
            self.dlv('c', 2)
            self.dlv('s', 1)
            return
        x = self.profile
        self.call(x, {'op': 'init'})
        pairs = []
        if r.random() < 0.6:
            for sid in r.sample([1, 3, 4, 5, 6, 2], r.randrange(0, 4)):
                if sid == 2 and x == 'c':
                    continue           # a server that announces ENABLE_PUSH=1 is a connection error: left to the settings flavour
                pairs.append([sid, r.choice(SETTING_VALUES[sid][:5] if sid != 2 else [0, 1])])
        self.recv(x, [{'t': 'SET', 'ack': False, 's': pairs}])
        if r.random() < 0.8:
            self.recv(x, [{'t': 'SET', 'ack': True, 's': []}])
        if self.flavour == 'flow' and r.random() < 0.4:
            # small own stream windows, acknowledged: the peer's DATA then meets (and can overrun) a window smaller than a frame
            self.call(x, {'op': 'set', 's': [[4, r.choice([0, 1, 10, 100, 1000, 20000])]]})
            self.recv(x, [{'t': 'SET', 'ack': True, 's': []}])

    # ------------------------------------------------------------ calls
    def hdr_name(self, x, sid):
        """A header-list name for send_headers on sid at x, mostly fitting what the stream expects next."""
        r = self.rng
        st = {s['sid']: s for s in self.streams(x)}.get(sid)
        p = r.random()
        if x == 'c':
            if st is None or not st['hs']:
                return r.choice(REQ_OK) if p < 0.8 else r.choice(REQ_OUT_REPAIRABLE + REQ_BAD + RESP_OK)
            return r.choice(TRL) if p < 0.8 else r.choice(TRL_BAD + REQ_OK)
        if st is None or not st['hs']:
            if p < 0.6:
                return r.choice(RESP_OK)
            if p < 0.8:
                return r.choice(INFO)
            return r.choice(RESP_OUT_REPAIRABLE + RESP_BAD + REQ_OK + TRL)
        return r.choice(TRL) if p < 0.75 else r.choice(TRL_BAD + RESP_OK + INFO)

    def rand_prio(self, sid):
        r = self.rng
        if r.random() < 0.85:
            return []
        w = r.choice([[], [1], [16], [256], [0], [257], [r.randrange(1, 257)]])
        dep = r.choice([[], [0], [sid], [r.randrange(0, 9)]])
        ex = r.choice([[], [True], [False]])
        return [w, dep, ex]

    def wild_call(self, x):
        r = self.rng
        f = self.flavour
        z = self.z(x)
        conn = self.conn(x)
        weights = {'hdr': 10, 'data': 10, 'end': 3, 'rst': 3, 'inc': 3, 'ack': 6, 'set': 3, 'ping': 2, 'prio': 2, 'alt': 2,
                   'push': 3, 'close': 0.3, 'oin': 1, 'oout': 1}
        if f == 'flow':
            weights.update(data=25, ack=20, inc=8, set=6, hdr=6)
        elif f == 'settings':
            weights.update(set=25, hdr=6, data=6)
        elif f == 'life':
            weights.update(hdr=20, end=8, rst=8, data=10, oin=3, oout=3)
        elif f == 'push':
            weights.update(push=20, hdr=12, rst=6, set=5)
        elif f == 'headers':
            weights.update(hdr=30, push=6, data=4)
        elif f == 'close':
            weights.update(close=4)
        elif f == 'misc':
            weights.update(ping=10, prio=12, alt=12, hdr=8)
        ops = list(weights)
        op = r.choices(ops, [weights[o] for o in ops])[0]
        if op == 'hdr':
            p = r.random()
            if x == 'c' and p < 0.45:
                try:
                    sid = conn.get_next_available_stream_id()
                except Exception:
                    sid = 1
                if r.random() < 0.1:
                    sid += r.choice([2, 4, 1, -2])
            else:
                sid = self.pick_sid(x)
            name = self.hdr_name(x, sid)
            es = r.random() < (0.9 if name in TRL else 0.3)
            return {'op': 'hdr', 'sid': max(sid, 0), 'h': name, 'es': es, 'pr': self.rand_prio(sid)}
        if op == 'data':
            sid = self.pick_sid(x)
            try:
                lw = conn.local_flow_control_window(sid)
            except Exception:
                lw = 10
            mof = conn.max_outbound_frame_size
            pad = r.choice([-1, -1, -1, 0, 1, 7, 255, 256]) if r.random() < 0.4 else -1
            extra = (pad + 1) if pad >= 0 else 0
            lim = min(lw, mof)
            p = r.random()
            if p < 0.25:
                n = max(0, lim - extra)                # exactly what fits
            elif p < 0.4:
                n = max(0, lim - extra + 1)            # one byte more
            elif p < 0.5:
                n = max(0, min(lw, 40000) - extra + r.choice([0, 1]))   # window-sized even if the frame limit is smaller
            else:
                n = r.choice([0, 1, 2, 3, 5, 10, 100, 1000, r.randrange(0, 70)])
            n = min(n, 70000)
            return {'op': 'data', 'sid': sid, 'n': n, 'tag': r.choice('AB'), 'es': r.random() < 0.2, 'pad': pad}
        if op == 'end':
            return {'op': 'end', 'sid': self.pick_sid(x)}
        if op == 'rst':
            return {'op': 'rst', 'sid': self.pick_sid(x), 'code': r.choice([0, 1, 2, 5, 7, 8, 11, 99, -1])}
        if op == 'inc':
            n = r.choice([1, 2, 5, 100, 65535, 2147483647, 2147418112, 0, -3, r.randrange(1, 3000)])
            sid = [] if r.random() < 0.45 else [self.pick_sid(x)]
            return {'op': 'inc', 'n': n, 'sid': sid}
        if op == 'ack':
            ua = self.unacked[x]
            cand = [s for s, v in ua.items() if v > 0]
            if cand and r.random() < 0.85:
                sid = r.choice(cand)
                n = ua[sid] if r.random() < 0.6 else r.randrange(0, ua[sid] + 1)
                ua[sid] -= n
            else:
                sid = self.pick_sid(x)
                n = r.choice([0, 1, 4, 50, 1000, -1])
            if sid <= 0 and r.random() < 0.7:
                sid = 1
            return {'op': 'ack', 'n': n, 'sid': sid}
        if op == 'set':
            k = r.choice([1, 1, 2, 2, 3])
            pairs = []
            for _ in range(k):
                sid = r.choice([1, 2, 3, 4, 4, 4, 5, 6, 8, 9, 0x4242] if f != 'flow' else [4, 4, 4, 3, 5])
                vals = SETTING_VALUES[sid]
                if f == 'flow' and sid == 4:
                    vals = [0, 1, 5, 10, 20, 100, 1000, 20000, 65535, 2147483647]
                pairs.append([sid, r.choice(vals)])
            # a dictionary: one value per key
            seen = {}
            for i, v in pairs:
                seen[i] = v
            return {'op': 'set', 's': [[i, v] for i, v in seen.items()]}
        if op == 'ping':
            return {'op': 'ping', 'tag': r.choice('ABZ'), 'n': 8 if r.random() < 0.9 else r.choice([0, 7, 9])}
        if op == 'prio':
            sid = self.pick_sid(x)
            pr = self.rand_prio(sid) or [[r.randrange(1, 257)], [], []]
            return {'op': 'prio', 'sid': max(sid, 1), 'w': pr[0], 'dep': pr[1], 'excl': pr[2]}
        if op == 'alt':
            p = r.random()
            if p < 0.45:
                return {'op': 'alt', 'fld': 'h2=":443"', 'org': ['a.example'], 'sid': []}
            if p < 0.9:
                return {'op': 'alt', 'fld': 'h2=":8000"', 'org': [], 'sid': [max(self.pick_sid(x), 1)]}
            return {'op': 'alt', 'fld': 'x', 'org': ['o'], 'sid': [1]}
        if op == 'push':
            hi = z.get('hiOut', 0) or 0
            pid = hi + 2 if hi % 2 == 0 else hi + 1
            if r.random() < 0.12:
                pid = r.choice([pid - 2, pid + 1, pid + 4, 2]) if pid > 2 else r.choice([3, 4])
            name = r.choice(REQ_OK) if r.random() < 0.85 else r.choice(REQ_BAD + RESP_OK + REQ_OUT_REPAIRABLE)
            return {'op': 'push', 'sid': max(self.pick_sid(x), 1), 'pid': max(pid, 1), 'h': name}
        if op == 'close':
            return {'op': 'close', 'code': r.choice([0, 2, 11]), 'last': r.choice([[], [0], [7]]), 'tag': r.choice([[], ['A']])}
        return {'op': op}

    # ------------------------------------------------------------ frames of the harness peer
    def in_hdr_name(self, x, sid):
        r = self.rng
        st = {s['sid']: s for s in self.streams(x)}.get(sid)
        p = r.random()
        if x == 's':
            if st is None or not st['hr']:
                return r.choice(REQ_OK) if p < 0.8 else r.choice(REQ_BAD + RESP_OK + TRL)
            return r.choice(TRL) if p < 0.8 else r.choice(TRL_BAD + REQ_OK)
        if st is None or not st['hr']:
            if p < 0.6:
                return r.choice(RESP_OK)
            if p < 0.8:
                return r.choice(INFO)
            return r.choice(RESP_BAD + REQ_OK + TRL)
        return r.choice(TRL) if p < 0.75 else r.choice(TRL_BAD + RESP_OK + INFO)

    def wild_frame(self, x):
        r = self.rng
        f = self.flavour
        z = self.z(x)
        conn = self.conn(x)
        weights = {'HEADERS': 10, 'DATA': 10, 'RST': 3, 'WU': 4, 'SET': 3, 'ACK': 3, 'PING': 2, 'PRIO': 2, 'ALT': 2, 'PP': 2,
                   'GOAWAY': 0.3, 'CONT': 0.5, 'UNKNOWN': 0.7}
        if f == 'flow':
            weights.update(DATA=25, WU=10, SET=6, ACK=6, HEADERS=6)
        elif f == 'settings':
            weights.update(SET=20, ACK=12)
        elif f == 'life':
            weights.update(HEADERS=20, RST=8, DATA=10, CONT=1.5)
        elif f == 'push':
            weights.update(PP=18 if x == 'c' else 2, HEADERS=12, RST=5, SET=4, ACK=4)
        elif f == 'headers':
            weights.update(HEADERS=30, PP=6 if x == 'c' else 1)
        elif f == 'close':
            weights.update(GOAWAY=4)
        elif f == 'misc':
            weights.update(PING=10, PRIO=12, ALT=12)
        ts = list(weights)
        t = r.choices(ts, [weights[o] for o in ts])[0]
        if t == 'HEADERS':
            p = r.random()
            if x == 's' and p < 0.45:
                hi = z.get('hiIn', 0) or 0
                sid = hi + 2 if hi % 2 == 1 else hi + 1
                if r.random() < 0.1:
                    sid = max(1, sid + r.choice([2, -2, 1, -4]))
            else:
                sid = self.pick_sid(x, kind='frame')
            name = self.in_hdr_name(x, sid)
            es = r.random() < (0.9 if name in TRL else 0.3)
            fr = {'t': 'HEADERS', 'sid': sid, 'es': es, 'h': name, 'pr': [], 'blk': 'ok'}
            if r.random() < 0.12:
                fr['pr'] = [r.randrange(1, 257), r.choice([0, sid, r.randrange(0, 9)]), r.random() < 0.5]
            if r.random() < 0.03:
                fr['blk'] = r.choice(['bad', 'big'])
            return fr
        if t == 'DATA':
            sid = self.pick_sid(x, kind='frame')
            try:
                rw = conn.remote_flow_control_window(sid)
            except Exception:
                rw = 10
            mif = conn.max_inbound_frame_size
            pad = r.choice([-1, -1, 0, 1, 7, 255]) if r.random() < 0.35 else -1
            extra = (pad + 1) if pad >= 0 else 0
            lim = max(0, min(rw, mif))
            p = r.random()
            if p < 0.25:
                n = max(0, lim - extra)
            elif p < 0.35 and lim + 1 <= mif:
                n = max(0, lim - extra + 1)
            else:
                n = r.choice([0, 1, 2, 3, 4, 10, 100, 1000, r.randrange(0, 70)])
            n = max(0, min(n, mif - extra))          # larger frames are refused by the frame layer (not in this grammar)
            fr = {'t': 'DATA', 'sid': sid, 'es': r.random() < 0.2, 'n': n, 'tag': 'B', 'pad': pad}
            self.unacked[x][sid] = self.unacked[x].get(sid, 0) + n + extra
            return fr
        if t == 'RST':
            return {'t': 'RST', 'sid': max(1, self.pick_sid(x, kind='frame')), 'code': r.choice([0, 2, 5, 8, 99, -1])}
        if t == 'WU':
            sid = 0 if r.random() < 0.45 else max(1, self.pick_sid(x, kind='frame'))
            return {'t': 'WU', 'sid': sid, 'inc': r.choice([1, 5, 100, 65535, 2147483647, 2147418112, r.randrange(1, 3000)])}
        if t == 'SET':
            k = r.choice([0, 1, 1, 2, 3])
            pairs = []
            for _ in range(k):
                sid = r.choice([1, 2, 3, 4, 4, 4, 5, 6, 8, 9, 0x4242] if f != 'flow' else [4, 4, 4, 3, 5])
                vals = SETTING_VALUES[sid]
                if f == 'flow' and sid == 4:
                    vals = [0, 1, 5, 10, 20, 100, 1000, 20000, 65535, 2147483647]
                if sid == 2 and x == 'c' and r.random() < 0.9:
                    vals = [0]
                pairs.append([sid, r.choice(vals)])
            return {'t': 'SET', 'ack': False, 's': pairs}
        if t == 'ACK':
            return {'t': 'SET', 'ack': True, 's': []}
        if t == 'PING':
            return {'t': 'PING', 'ack': r.random() < 0.3, 'tag': r.choice('ABZ')}
        if t == 'PRIO':
            sid = max(1, self.pick_sid(x, kind='frame'))
            return {'t': 'PRIO', 'sid': sid, 'w': r.randrange(1, 257), 'dep': r.choice([0, sid, r.randrange(0, 12)]),
                    'excl': r.random() < 0.5}
        if t == 'ALT':
            p = r.random()
            if p < 0.4:
                return {'t': 'ALT', 'sid': 0, 'org': r.choice(['o.example', '']), 'fld': 'h2=":443"'}
            return {'t': 'ALT', 'sid': max(1, self.pick_sid(x, kind='frame')), 'org': r.choice(['', '', 'o']), 'fld': 'h2=":8"'}
        if t == 'PP':
            hi = z.get('hiIn', 0) or 0
            pid = hi + 2 if hi % 2 == 0 else hi + 1
            if r.random() < 0.12:
                pid = r.choice([max(2, pid - 2), pid + 4, 2])
            name = r.choice(REQ_OK) if r.random() < 0.85 else r.choice(REQ_BAD + RESP_OK)
            fr = {'t': 'PP', 'sid': max(1, self.pick_sid(x, kind='frame')), 'pid': pid, 'h': name, 'blk': 'ok'}
            return fr
        if t == 'GOAWAY':
            return {'t': 'GOAWAY', 'last': r.choice([0, 1, 7]), 'code': r.choice([0, 2, 11]), 'tag': r.choice(['-', 'A'])}
        if t == 'CONT':
            return {'t': 'CONT', 'sid': max(1, self.pick_sid(x, kind='frame'))}
        return {'t': 'UNKNOWN', 'sid': r.choice([0, 1, 3])}



    # ------------------------------------------------------------ frames given by the structure of their octets (frame layer)
    def gen_raw(self, x):
        r = self.rng
        conn = self.conn(x)
        ss = self.streams(x)
        live = [t['sid'] for t in ss if t['st'] != 'CLOSED']
        z = self.z(x)
        hi = max(z.get('hiIn', 0) or 0, 1)

        def stream_sid():
            p = r.random()
            if live and p < 0.7:
                return r.choice(live)
            if p < 0.85:
                return hi + (2 if (hi % 2) == (1 if x == 's' else 0) else 1)
            return r.choice([0, 1, 3, hi + 5])
        typ = r.choice([0, 0, 0, 1, 1, 1, 2, 3, 4, 4, 5, 6, 7, 8, 8, 9, 10, 32])
        f = {'t': 'RAW', 'typ': typ, 'fl': 0, 'sid': 0, 'len': 0, 'pad': -1}
        if typ == 0:
            padded = r.random() < 0.5
            mif = conn.max_inbound_frame_size
            ln = r.choice([0, 1, 2, 3, 4, 10, 100, mif, mif + 1] if r.random() < 0.3 else [0, 1, 2, 3, 4, 10, 100])
            pad = min(255, max(0, r.choice([0, 1, ln - 1, ln, ln + 1, 255]))) if padded and ln > 0 else -1
            f.update(fl=(8 if padded else 0) | (1 if r.random() < 0.2 else 0), sid=stream_sid(), len=ln, pad=pad, tag='B')
            if not padded or (pad == 0 or pad < ln):
                self.unacked[x][f['sid']] = self.unacked[x].get(f['sid'], 0) + ln
        elif typ in (1, 5):
            padded = r.random() < 0.4
            prio = typ == 1 and r.random() < 0.4
            bl = r.choice([0, 1, 1, 2])
            apad = r.choice([0, 1, 3]) if padded else 0
            pad = r.choice([apad, apad, apad + 1, 255]) if padded else -1
            natural = (1 if padded else 0) + (5 if prio else 0) + (4 if typ == 5 else 0) + bl + apad
            ln = natural if r.random() < 0.7 else min(natural, r.choice([0, 1, 3, 4, 5]))
            if padded and ln == 0:
                pad = -1
            sid = stream_sid()
            fl = (8 if padded else 0) | (32 if prio else 0) | (4 if r.random() < 0.75 else 0) | (1 if typ == 1 and r.random() < 0.3 else 0)
            f.update(fl=fl, sid=sid, len=ln, pad=pad, bl=bl, apad=apad)
            if typ == 1:
                f['pr'] = [r.randrange(1, 257), r.choice([0, sid, 7]), r.random() < 0.5]
            else:
                hi_in = z.get('hiIn', 0) or 0
                f['pid'] = r.choice([hi_in + 2 if hi_in % 2 == 0 else hi_in + 1, 0, 3, 2])
        elif typ == 9:
            bl = r.choice([0, 1, 2])
            f.update(fl=4 if r.random() < 0.7 else 0, sid=stream_sid(), len=bl, bl=bl)
        elif typ == 2:
            sid = stream_sid()
            f.update(sid=sid, len=r.choice([5, 5, 5, 4, 6, 0]), w=r.randrange(1, 257), dep=r.choice([0, sid, 9]), excl=r.random() < 0.5)
        elif typ == 3:
            f.update(sid=stream_sid(), len=r.choice([4, 4, 4, 3, 5, 0]), code=r.choice([0, 2, 8]))
        elif typ == 4:
            if r.random() < 0.35:
                s_, ln = ([], 0) if r.random() < 0.7 else ([[3, 5]], 6)
                f.update(fl=1, s=s_, len=ln)
            else:
                s_ = self.valid_set_pairs(x, True)
                f.update(s=s_, len=6 * len(s_) + r.choice([0, 0, 0, 1, 5]))
            f['sid'] = 0 if r.random() < 0.9 else 1
        elif typ == 6:
            f.update(fl=1 if r.random() < 0.3 else 0, sid=0 if r.random() < 0.9 else 1, len=r.choice([8, 8, 8, 7, 9, 0]), tag=r.choice('AB'))
        elif typ == 7:
            ln = r.choice([8, 8, 7, 16])
            f.update(sid=0 if r.random() < 0.9 else 1, len=ln, last=r.choice([0, 1]), code=r.choice([0, 2]), tag='A' if ln == 16 else '-')
        elif typ == 8:
            f.update(sid=0 if r.random() < 0.5 else stream_sid(), len=r.choice([4, 4, 4, 4, 3, 5]), inc=r.choice([1, 5, 100, 0, -1, 2147483647]))
        elif typ == 10:
            olen = r.choice([1, 1, 9, 0])
            f.update(sid=0 if r.random() < 0.5 else stream_sid(), len=r.choice([5, 5, 5, 1, 0]), olen=olen,
                     # (the payload is the same five octets either way; org / fld say how the declared origin length cuts them)
                     org='o' if olen else '', fld='h2' if olen else 'oh2')
        else:
            f.update(fl=r.choice([0, 5]), sid=r.choice([0, 1, 7]), len=r.choice([0, 3]))
        return f

    # ------------------------------------------------------------ inputs that fit the current state (most steps)
    SEND_OK = ('OPEN', 'HALF_CLOSED_REMOTE')
    RECV_OK = ('OPEN', 'HALF_CLOSED_LOCAL')

    def valid_set_pairs(self, x, inbound):
        r = self.rng
        f = self.flavour
        ids = [4, 4, 3, 5, 1, 6, 2, 8, 9] if f != 'flow' else [4, 4, 4, 3, 5]
        out = {}
        for _ in range(r.choice([1, 1, 1, 2, 3])):
            i = r.choice(ids)
            if i == 4:
                v = r.choice([0, 1, 5, 10, 20, 100, 1000, 20000, 65535, 65536, 1 << 20, 2147483647])
            elif i == 3:
                v = r.choice([0, 1, 2, 3, 5, 100])
            elif i == 5:
                v = r.choice([16384, 16385, 20000, 70000, 16777215])
            elif i == 1:
                v = r.choice([0, 100, 4096, 65536])
            elif i == 6:
                v = r.choice([100, 200, 65536, 1 << 20])
            elif i == 2:
                v = 0 if (inbound and x == 'c') or (not inbound and x == 's') else r.choice([0, 1])
            elif i == 8:
                v = r.choice([0, 1])
            else:
                v = r.choice([0, 7])
            out[i] = v
        return [[i, v] for i, v in out.items()]

    def gen_call(self, x):
        r = self.rng
        if r.random() < self.chaos:
            return self.wild_call(x)
        f = self.flavour
        conn = self.conn(x)
        ss = self.streams(x)
        opts = []            # (weight, thunk)
        W = {'flow': dict(data=8, ack=8, inc=3, set=2), 'settings': dict(set=8), 'life': dict(new=6, end=3, rst=2, count=2),
             'upgrade': dict(new=3, resp=4, end=2, rst=1, count=2),
             'push': dict(push=10, rst=2, set=1.5), 'headers': dict(new=6, resp=6, trl=4, push=3),
             'close': dict(close=1), 'misc': dict(ping=5, prio=6, alt=6)}.get(f, {})

        def w(k, base):
            return base * W.get(k, 1)
        sendable = [t for t in ss if t['st'] in self.SEND_OK and t['hs'] and not t['ts']]
        live = [t for t in ss if t['st'] != 'CLOSED']
        if x == 'c':
            def new():
                try:
                    sid = conn.get_next_available_stream_id()
                except Exception:
                    sid = 1
                name = r.choice(REQ_OK + REQ_OUT_REPAIRABLE)
                if f == 'headers' and r.random() < 0.25:
                    name = r.choice(REQ_BIG)
                return {'op': 'hdr', 'sid': sid, 'h': name, 'es': r.random() < 0.4,
                        'pr': [] if r.random() < 0.85 else [[r.randrange(1, 257)], r.choice([[], [0], [sid + 2]]), r.choice([[], [True]])]}
            if len(live) < 6:
                opts.append((w('new', 6 if len(live) < 3 else 2), new))
        else:
            need = [t for t in ss if t['st'] in self.SEND_OK and t['hr'] and not t['hs']] + \
                   [t for t in ss if t['st'] == 'RESERVED_LOCAL']
            if need:
                def resp():
                    t = r.choice(need)
                    if r.random() < 0.2 and t['st'] != 'RESERVED_LOCAL':
                        return {'op': 'hdr', 'sid': t['sid'], 'h': r.choice(INFO), 'es': False, 'pr': []}
                    if f == 'headers' and r.random() < 0.2:
                        return {'op': 'hdr', 'sid': t['sid'], 'h': r.choice(RESP_BIG), 'es': r.random() < 0.3, 'pr': []}
                    return {'op': 'hdr', 'sid': t['sid'], 'h': r.choice(RESP_OK + RESP_OUT_REPAIRABLE), 'es': r.random() < 0.3, 'pr': []}
                opts.append((w('resp', 7), resp))
            parents = [t for t in ss if t['st'] in self.SEND_OK and t['sid'] % 2 == 1]
            if parents and getattr(conn.remote_settings, 'enable_push', 0) == 1:
                def push():
                    z = self.z(x)
                    hi = z.get('hiOut', 0) or 0
                    return {'op': 'push', 'sid': r.choice(parents)['sid'], 'pid': hi + 2,
                            'h': r.choice(REQ_BIG) if f == 'headers' and r.random() < 0.25 else r.choice(REQ_OK)}
                opts.append((w('push', 2), push))
            altable = [t for t in ss if t['hr'] and not t['hs'] and t['st'] in self.SEND_OK]

            def alt():
                if altable and r.random() < 0.5:
                    return {'op': 'alt', 'fld': 'h2=":8000"', 'org': [], 'sid': [r.choice(altable)['sid']]}
                return {'op': 'alt', 'fld': 'h2=":443"', 'org': ['a.example'], 'sid': []}
            opts.append((w('alt', 0.7), alt))
        if sendable:
            def data():
                t = r.choice(sendable)
                try:
                    lw = conn.local_flow_control_window(t['sid'])
                except Exception:
                    lw = 0
                pad = r.choice([-1, -1, -1, 0, 3, 255]) if r.random() < 0.3 else -1
                extra = (pad + 1) if pad >= 0 else 0
                lim = min(lw, conn.max_outbound_frame_size) - extra
                if lim <= 0:
                    n, pad = (0, -1) if lw >= 0 else (0, -1)
                elif r.random() < 0.3:
                    n = lim
                elif r.random() < 0.1 and lim + extra + 1 <= conn.max_outbound_frame_size:
                    n = lim + 1                # one octet more than the windows allow, in a frame of permitted size
                else:
                    n = min(lim, r.choice([1, 2, 3, 5, 10, 100, 1000, 16384, r.randrange(1, 70)]))
                return {'op': 'data', 'sid': t['sid'], 'n': max(n, 0), 'tag': r.choice('AB'), 'es': r.random() < 0.15, 'pad': pad}
            opts.append((w('data', 6), data))
            opts.append((w('trl', 1), lambda: {'op': 'hdr', 'sid': r.choice(sendable)['sid'], 'h': r.choice(TRL), 'es': True, 'pr': []}))
            opts.append((w('end', 1.5), lambda: {'op': 'end', 'sid': r.choice(sendable)['sid']}))
        if live:
            opts.append((w('rst', 1), lambda: {'op': 'rst', 'sid': r.choice(live)['sid'], 'code': r.choice([0, 2, 5, 8])}))
            incable = [t for t in live if t['st'] in ('OPEN', 'HALF_CLOSED_LOCAL', 'RESERVED_REMOTE')]
            if incable:
                opts.append((w('inc', 1), lambda: {'op': 'inc', 'n': r.choice([1, 5, 100, 4000, 65535]), 'sid': [r.choice(incable)['sid']]}))
        opts.append((w('inc', 0.7), lambda: {'op': 'inc', 'n': r.choice([1, 5, 100, 4000, 65535]), 'sid': []}))
        ua = [sid for sid, v in self.unacked[x].items() if v > 0]
        if ua:
            def ack():
                sid = r.choice(ua)
                tot = self.unacked[x][sid]
                n = tot if r.random() < 0.6 else r.randrange(0, tot + 1)
                self.unacked[x][sid] -= n
                return {'op': 'ack', 'n': n, 'sid': sid}
            opts.append((w('ack', 5) * (0.08 if self.starve else 1), ack))
        opts.append((w('set', 1.2), lambda: {'op': 'set', 's': self.valid_set_pairs(x, False)}))
        opts.append((w('ping', 0.8), lambda: {'op': 'ping', 'tag': r.choice('ABZ'), 'n': 8}))
        if x == 'c':
            opts.append((w('prio', 0.6), lambda: {'op': 'prio', 'sid': r.choice([t['sid'] for t in ss] + [1, 3, 7]),
                                                  'w': r.choice([[], [1], [256], [r.randrange(1, 257)]]),
                                                  'dep': r.choice([[], [0], [11]]), 'excl': r.choice([[], [True], [False]])}))
        opts.append((w('count', 0.5), lambda: {'op': r.choice(['oin', 'oout'])}))
        if 'close' in W:
            opts.append((0.3, lambda: {'op': 'close', 'code': r.choice([0, 2]), 'last': r.choice([[], [0]]), 'tag': r.choice([[], ['A']])}))
        return r.choices([o[1] for o in opts], [o[0] for o in opts])[0]()

    def gen_frame(self, x):
        r = self.rng
        if self.flavour == 'raw' and r.random() < 0.35:
            return self.gen_raw(x)
        if r.random() < self.chaos:
            return self.gen_raw(x) if r.random() < 0.25 else self.wild_frame(x)
        f = self.flavour
        conn = self.conn(x)
        ss = self.streams(x)
        z = self.z(x)
        opts = []
        W = {'flow': dict(data=8, wu=4, set=2, ack=2), 'settings': dict(set=8, ack=6), 'life': dict(new=6, rst=3, trl=2),
             'upgrade': dict(new=3, resp=4, rst=1, trl=2),
             'push': dict(pp=10, resp=3, rst=2, set=1.5), 'headers': dict(new=6, resp=6, trl=4, pp=3),
             'close': dict(goaway=1), 'misc': dict(ping=5, prio=6, alt=6)}.get(f, {})

        def w(k, base):
            return base * W.get(k, 1)
        live = [t for t in ss if t['st'] != 'CLOSED']
        recvable = [t for t in ss if t['st'] in self.RECV_OK and t['hr'] and not t['tr']]
        if x == 's':
            def new():
                hi = z.get('hiIn', 0) or 0
                sid = hi + 2 if hi % 2 == 1 else hi + 1
                fr = {'t': 'HEADERS', 'sid': sid, 'es': r.random() < 0.4, 'h': r.choice(REQ_OK), 'pr': [], 'blk': 'ok'}
                if r.random() < 0.15:
                    fr['pr'] = [r.randrange(1, 257), r.choice([0, sid + 2, 1]) if sid != 1 else 0, r.random() < 0.5]
                return fr
            if len(live) < 6:
                opts.append((w('new', 6 if len(live) < 3 else 2), new))
        else:
            need = [t for t in ss if t['cl'] == 'T' and t['st'] in self.RECV_OK + ('RESERVED_REMOTE',) and not t['hr']]
            if need:
                def resp():
                    t = r.choice(need)
                    if r.random() < 0.2 and t['st'] != 'RESERVED_REMOTE':
                        return {'t': 'HEADERS', 'sid': t['sid'], 'es': False, 'h': r.choice(INFO), 'pr': [], 'blk': 'ok'}
                    fr = {'t': 'HEADERS', 'sid': t['sid'], 'es': r.random() < 0.3, 'h': r.choice(RESP_OK), 'pr': [], 'blk': 'ok'}
                    if r.random() < 0.15:          # priority fields on a response (allowed on any HEADERS frame)
                        fr['pr'] = [r.randrange(1, 257), r.choice([0, t['sid'] + 2, 1]) if t['sid'] != 1 else 0, r.random() < 0.5]
                    return fr
                opts.append((w('resp', 7), resp))
            parents = [t for t in ss if t['st'] in self.RECV_OK and t['sid'] % 2 == 1]
            if parents and getattr(conn.local_settings, 'enable_push', 0) == 0 and f == 'push':
                opts.append((2, lambda: {'t': 'PP', 'sid': r.choice(parents)['sid'], 'pid': (z.get('hiIn', 0) or 0) + 2, 'h': r.choice(REQ_OK), 'blk': 'ok'}))
            if parents and getattr(conn.local_settings, 'enable_push', 0) == 1:
                def pp():
                    hi = z.get('hiIn', 0) or 0
                    par = r.choice(parents)['sid']
                    gone = [t['sid'] for t in ss if t['st'] == 'CLOSED' and t['sid'] % 2 == 1] + [c[0] for c in (z.get('closed') or []) if c[0] % 2 == 1]
                    if gone and r.random() < 0.2:      # a promise on a parent that is closed (by either side, collected or not)
                        par = r.choice(gone)
                    return {'t': 'PP', 'sid': par, 'pid': hi + 2, 'h': r.choice(REQ_OK), 'blk': 'ok'}
                opts.append((w('pp', 2), pp))
            altable = [t for t in ss if t['cl'] == 'T' and not t['hr'] and t['st'] != 'CLOSED']

            def alt():
                if altable and r.random() < 0.5:
                    return {'t': 'ALT', 'sid': r.choice(altable)['sid'], 'org': '', 'fld': 'h2=":8"'}
                return {'t': 'ALT', 'sid': 0, 'org': 'o.example', 'fld': 'h2=":443"'}
            opts.append((w('alt', 0.7), alt))
        if recvable:
            def data():
                t = r.choice(recvable)
                try:
                    rw = conn.remote_flow_control_window(t['sid'])
                except Exception:
                    rw = 0
                pad = r.choice([-1, -1, 0, 3, 255]) if r.random() < 0.3 else -1
                extra = (pad + 1) if pad >= 0 else 0
                lim = min(rw, conn.max_inbound_frame_size) - extra
                if lim < 0:
                    n, pad, extra = 0, -1, 0
                    if rw < 0:
                        return {'t': 'PING', 'ack': False, 'tag': 'A'}
                elif r.random() < (0.75 if self.starve else 0.3):
                    n = lim
                elif r.random() < 0.2 and lim + extra + 1 <= conn.max_inbound_frame_size:
                    n = lim + 1                # one octet over the advertised window, in a frame of permitted size
                else:
                    n = min(lim, r.choice([0, 1, 2, 3, 4, 10, 100, 1000, 16384, r.randrange(0, 70)]))
                self.unacked[x][t['sid']] = self.unacked[x].get(t['sid'], 0) + n + extra
                return {'t': 'DATA', 'sid': t['sid'], 'es': r.random() < 0.15, 'n': n, 'tag': 'B', 'pad': pad}
            opts.append((w('data', 6) * (2.5 if self.starve else 1), data))
            opts.append((w('trl', 1), lambda: {'t': 'HEADERS', 'sid': r.choice(recvable)['sid'], 'es': True, 'h': r.choice(TRL),
                                               'pr': [r.randrange(1, 257), 0, False] if r.random() < 0.15 else [], 'blk': 'ok'}))
        # frames racing a local reset (C20): on streams this endpoint reset itself, still in the table or already collected
        raced = [t['sid'] for t in ss if t['st'] == 'CLOSED' and t.get('by') == 'SRST'] + [c[0] for c in (z.get('closed') or []) if c[1] == 'SRST']
        if raced:
            def race():
                sid = r.choice(raced)
                k = r.random()
                if k < 0.35:
                    return {'t': 'DATA', 'sid': sid, 'es': r.random() < 0.3, 'n': r.choice([0, 1, 100, 1000]), 'tag': 'B', 'pad': r.choice([-1, -1, 0, 5])}
                if k < 0.6:
                    return {'t': 'HEADERS', 'sid': sid, 'es': r.random() < 0.5, 'h': r.choice(RESP_OK if x == 'c' else TRL), 'pr': [], 'blk': 'ok'}
                if k < 0.8:
                    return {'t': 'WU', 'sid': sid, 'inc': r.choice([1, 100, 65535])}
                return {'t': 'RST', 'sid': sid, 'code': r.choice([0, 8])}
            opts.append((w('rst', 1.5) * (3 if f in ('life', 'push') else 1), race))
        if live:
            opts.append((w('rst', 1), lambda: {'t': 'RST', 'sid': r.choice(live)['sid'], 'code': r.choice([0, 2, 5, 8])}))
            opts.append((w('wu', 1.5), lambda: {'t': 'WU', 'sid': r.choice(live)['sid'], 'inc': r.choice([1, 5, 100, 4000, 65535])}))
        opts.append((w('wu', 1), lambda: {'t': 'WU', 'sid': 0, 'inc': r.choice([1, 5, 100, 4000, 65535])}))
        opts.append((w('set', 1.2), lambda: {'t': 'SET', 'ack': False, 's': self.valid_set_pairs(x, True)}))
        pending = any(isinstance(e, list) and len(e[1]) > 1 for e in (z.get('ls') or []))
        if pending:
            opts.append((w('ack', 2), lambda: {'t': 'SET', 'ack': True, 's': []}))
        opts.append((w('ping', 0.8), lambda: {'t': 'PING', 'ack': r.random() < 0.3, 'tag': r.choice('ABZ')}))
        opts.append((w('prio', 0.6), lambda: {'t': 'PRIO', 'sid': r.choice([t['sid'] for t in ss] + [1, 3, 9]), 'w': r.randrange(1, 257),
                                              'dep': r.choice([0, 11, 13]), 'excl': r.random() < 0.5}))
        opts.append((0.3, lambda: {'t': 'UNKNOWN', 'sid': r.choice([0, 1, 3])}))
        if 'goaway' in W:
            opts.append((2.5 if self.held.get(x) else 0.3, lambda: {'t': 'GOAWAY', 'last': r.choice([0, 1, 7]), 'code': r.choice([0, 2]), 'tag': r.choice(['-', 'A'])}))
        return r.choices([o[1] for o in opts], [o[0] for o in opts])[0]()

    # ------------------------------------------------------------ header blocks given as octets
    def fuzz_block(self, x, fr):
        """Replace the block of a HEADERS / PUSH_PROMISE frame by octets drawn from the HPACK grammar (RFC 7541), including
        what a decoder must refuse: index 0, an index beyond the tables, an over-long integer, a string that runs off the end,
        invalid Huffman octets.  Only representations that leave the dynamic table alone are used (indexed static fields,
        literals without indexing / never indexed), so what the block decodes to does not depend on the connection: a fresh
        decoder of the hpack library says whether it decodes and to which fields, and that is logged with the frame
        (`hx`, `blk`), like the block length of a sent block.  What h2 makes of the block is the specification's business."""
        r = self.rng

        def hint(v, bits, flags=0, overlong=False):
            mx = (1 << bits) - 1
            if v < mx and not overlong:
                return bytes([flags | v])
            out = [flags | mx]
            v -= min(v, mx)
            while v >= 128:
                out.append((v % 128) | 0x80)
                v //= 128
            out.append(v)
            if overlong:
                out[-1] |= 0x80
                out += [0x80] * r.choice([1, 6, 14]) + [0x01]
            return bytes(out)

        def hstr(b, huff=False, lie=0):
            return hint(len(b) + lie, 7, 0x80 if huff else 0) + b

        def name():
            return r.choice([b'x-a', b'accept', b'X-Up', b' ws', b'te', b'connection', b'content-length', b':path', b':status', b':method',
                             b':weird', b'', b'cookie', b'host', b'trailer-x', b'upgrade', b'proxy-connection'])

        def value():
            return r.choice([b'1', b'', b'trailers', b'gzip', b'/', b'200', b'GET', b' v ', b'abc', b'0', b'3', b'a=b', b'HEAD', b'204'])

        def literal():
            fl = r.choice([0x00, 0x10])
            if r.random() < 0.5:
                return hint(r.randrange(1, 62), 4, fl) + hstr(value())
            return bytes([fl]) + hstr(name()) + hstr(value())
        if x == 's' and fr['t'] == 'HEADERS' or fr['t'] == 'PP':
            base = [bytes([0x80 | r.choice([2, 3])]), bytes([0x80 | r.choice([6, 7])]), bytes([0x80 | r.choice([4, 5])]),
                    hint(1, 4, 0x00) + hstr(b'example.com')]
        else:
            base = [bytes([0x80 | r.choice([8, 9, 10, 11, 13])])]
        if fr.get('es') and r.random() < 0.3:
            base = []                                           # a trailer block
        for _ in range(r.choice([0, 1, 1, 2, 3])):
            base.insert(r.randrange(0, len(base) + 1), r.choice([literal, literal, lambda: bytes([0x80 | r.randrange(1, 62)])])())
        for _ in range(8):
            parts = list(base)
            k = r.random()
            if k < 0.45:
                pass                                            # well-formed octets; the list may still break the header rules
            elif k < 0.55:
                parts.insert(r.randrange(0, len(parts) + 1), b'\x80')                       # index 0
            elif k < 0.65:
                parts.insert(r.randrange(0, len(parts) + 1), hint(r.choice([5000, 70000]), 7, 0x80))   # beyond both tables
            elif k < 0.75:
                parts.insert(r.randrange(0, len(parts) + 1), hint(r.randrange(1, 62), 7, 0x80, overlong=True))
            elif k < 0.85:
                parts.append(bytes([0x00]) + hstr(b'x-cut', lie=r.choice([1, 5, 200])) + b'')   # a string longer than the block
            elif k < 0.95:
                parts.append(bytes([0x00]) + hstr(b'x-h') + hstr(bytes(r.randrange(256) for _ in range(r.choice([1, 2, 5]))), huff=True))
            else:
                parts = [b''.join(parts)[:r.randrange(0, max(1, len(b''.join(parts))))]]         # cut anywhere
            blk = b''.join(parts)
            try:
                import hpack
                hs = hpack.Decoder(max_header_list_size=1 << 20).decode(blk, raw=True)
                if any(not all(32 <= c < 127 for c in h[0] + h[1]) for h in hs):
                    continue                                    # keep the logged text printable
                hx = [absn.tok(h[0], h[1], 'N' if isinstance(h, hpack.NeverIndexedHeaderTuple) else 't') for h in hs]
                ok = True
            except Exception:
                # the fields in front of the representation the decoder refuses (the longest prefix of the block that decodes):
                # the decoder checks the size of the list after every field, so they matter when the list cap is small
                hx, ok = [], False
                for k in range(len(blk) - 1, 0, -1):
                    try:
                        hs = hpack.Decoder(max_header_list_size=1 << 20).decode(blk[:k], raw=True)
                    except Exception:
                        continue
                    if any(not all(32 <= c < 127 for c in h[0] + h[1]) for h in hs):
                        hs = None
                    break
                else:
                    hs = []
                if hs is None:
                    continue
                hx = [absn.tok(h[0], h[1], 'N' if isinstance(h, hpack.NeverIndexedHeaderTuple) else 't') for h in hs]
            out = dict(fr, h='x', hx=hx, blk='ok' if ok else 'bad', bx=blk.hex(), tsu=[])
            if not ok:
                out['bp'] = True
            out.pop('frag', None)
            return out
        return fr

    # ------------------------------------------------------------ one trace
    def run(self, length):
        r = self.rng
        self.handshake()
        self.hold = True
        while len(self.steps) < length:
            if self.pair:
                x = r.choice('cs')
                pending = len(self.sess.chan[x])
                if pending and r.random() < 0.5:
                    self.dlv(x, r.randrange(1, pending + 1) if r.random() < 0.7 else 1)
                else:
                    self.call(x, self.gen_call(x))
            else:
                x = self.profile
                if r.random() < 0.5:
                    self.call(x, self.gen_call(x))
                else:
                    k = 1 if r.random() < 0.8 else r.choice([2, 3])
                    fs = [self.gen_frame(x) for _ in range(k)]
                    if r.random() < 0.15 and any(fr.get('t') == 'PING' and not fr.get('ack') for fr in fs):
                        # the same PING twice in one input: each is answered (C26)
                        fs = fs + [dict(next(fr for fr in fs if fr.get('t') == 'PING' and not fr.get('ack')))]
                    pf = {'headers': 0.3, 'raw': 0.15}.get(self.flavour, 0.06)
                    fs = [self.fuzz_block(x, fr) if fr.get('t') in ('HEADERS', 'PP') and fr.get('blk') == 'ok' and 'h' in fr
                          and r.random() < pf else fr for fr in fs]
                    if self.lost:
                        # the code stopped decoding at a connection error while the harness peer's HPACK encoder went on:
                        # what a later block decodes to is unknown, so no block whose verdict depends on its content
                        fs = [dict(fr, blk='ok') if fr.get('blk') == 'big' else fr for fr in fs]
                    obs = self.recv(x, fs)
                    if obs['r']['c'] != 'ok':
                        self.lost = True
            if self.stop or self.closed_long_enough():
                break
        return self.steps

    def closed_long_enough(self):
        """After the connection closed a few more steps are interesting, many are not."""
        closed = [x for x in self.meta['roles'] if self.z(x).get('conn') == 'CLOSED']
        if not closed:
            self._after_close = 0
            return False
        self._after_close = getattr(self, '_after_close', 0) + 1
        return self._after_close > 6


def trace(profile, flavour, seed, length, max_closed=None, cfg=None, chaos=None, chunk_seed=None):
    g = G(profile, flavour, seed, max_closed=max_closed, cfg=cfg, chaos=chaos, chunk_seed=chunk_seed)
    steps = g.run(length)
    return {'id': '%s/%s/%d%s' % (profile, flavour, seed, '' if chunk_seed is None else '/chunked'), 'meta': g.meta, 'steps': steps,
            'chunk_seed': chunk_seed}
