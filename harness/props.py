"""Registry: which scenario models decide which property, with which TLC formulas, and which
observation fields of a divergence count as a violation of that property (the lens)."""


def sc(module, quick, thorough, invariants=(), **kw):
    d = {'module': module, 'depth': {'quick': quick, 'thorough': thorough}, 'invariants': list(invariants)}
    d.update(kw)
    return d


GENERIC = ['RaisingCallEmitsNothing', 'OnlyKnownExceptions']

PROPS = {
    'C06': {'scenarios': [sc('MC_LifeS', 4, 6, GENERIC), sc('MC_LifeC', 4, 6, GENERIC)]},
}


def in_lens(pid, d):
    """Every field of a divergence inside a property's own scenarios counts for now."""
    return True
