"""Registry: which scenario models decide which property, with which TLC formulas (spec/Scn.tla), and which
part of a divergence between the model's prediction and the code's observation counts as a violation of that
property (the lens).

A lens is a list of rules; a divergence is inside the lens when one rule matches:
  rule = (field prefixes, step filter)
  field prefixes: 'r' result/exception, 'o' emitted frames, 'e' events, 'q.lw' ... queries, 'z.*' state projection
  step filter: None (any step) or a set of tags; a step carries the tags
      'call', 'call:<op>', 'recv', 'dlv', 'frame:<TYPE>' for every frame type it delivers
"""


def sc(module, quick, thorough, invariants=(), **kw):
    d = {'module': module, 'depth': {'quick': quick, 'thorough': thorough}, 'invariants': list(invariants)}
    d.update(kw)
    return d


GENERIC = ['RaisingCallEmitsNothing', 'OnlyKnownExceptions']
ANY = None
ALL_PUBLIC = ['r', 'o', 'e', 'q']
STATE_FSM = ['z.streams.st', 'z.streams.by', 'z.streams.cl', 'z.streams.hs', 'z.streams.ts', 'z.streams.hr', 'z.streams.tr',
             'z.streams', 'z.closed', 'z.conn']


def S(*names):
    return set(names)


SCEN = {
    'LifeS': lambda inv=(): sc('MC_LifeS', 4, 5, inv),
    'LifeC': lambda inv=(): sc('MC_LifeC', 4, 5, inv),
    'CloseS': lambda inv=(): sc('MC_CloseS', 4, 5, inv),
    'FlowS': lambda inv=(): sc('MC_FlowS', 4, 5, inv),
    'MiscC': lambda inv=(): sc('MC_MiscC', 4, 6, inv),
    'MiscS': lambda inv=(): sc('MC_MiscS', 4, 6, inv),
    'Pair1': lambda inv=(): sc('MC_Pair1', 4, 5, inv),
    'SetC': lambda inv=(): sc('MC_SetC', 4, 5, inv),
    'SetS': lambda inv=(): sc('MC_SetS', 4, 5, inv),
    'HdrOutC': lambda inv=(): sc('MC_HdrOutC', 3, 4, inv),
    'HdrOutS': lambda inv=(): sc('MC_HdrOutS', 3, 4, inv),
    'HdrInS': lambda inv=(): sc('MC_HdrInS', 3, 4, inv),
    'HdrInC': lambda inv=(): sc('MC_HdrInC', 3, 4, inv),
    'LenC': lambda inv=(): sc('MC_LenC', 3, 4, inv),
    'LenS': lambda inv=(): sc('MC_LenS', 4, 5, inv),
    'LenC2': lambda inv=(): sc('MC_LenC2', 5, 6, inv),
    'PushS': lambda inv=(): sc('MC_PushS', 4, 5, inv),
    'PushC': lambda inv=(): sc('MC_PushC', 5, 6, inv),
    'FrameS': lambda inv=(): sc('MC_FrameS', 4, 5, inv),
    'StallS': lambda inv=(): sc('MC_StallS', 6, 7, inv),
    'IdsC': lambda inv=(): sc('MC_IdsC', 4, 5, inv),
    'PushOffC': lambda inv=(): sc('MC_PushOffC', 5, 6, inv),
    'BigC': lambda inv=(): sc('MC_BigC', 4, 5, inv),
    'BigS': lambda inv=(): sc('MC_BigS', 4, 5, inv),
    'RawS': lambda inv=(): sc('MC_RawS', 3, 4, inv),
    'RawC': lambda inv=(): sc('MC_RawC', 3, 4, inv),
    'UpgPair': lambda inv=(): sc('MC_UpgPair', 6, 7, inv),
    'UpgS': lambda inv=(): sc('MC_UpgS', 4, 5, inv),
    'UpgC': lambda inv=(): sc('MC_UpgC', 4, 5, inv),
    'ConnWinS': lambda inv=(): sc('MC_ConnWinS', 4, 6, inv),
    'ConnOutS': lambda inv=(): sc('MC_ConnOutS', 4, 5, inv),
    'BacklogS': lambda inv=(): sc('MC_BacklogS', 4, 5, inv),
    'SplitResetC': lambda inv=(): sc('MC_SplitResetC', 5, 6, inv),
    # copies of the header scenarios under a non-default configuration
    'HdrInSNoVal': lambda inv=(): sc('MC_HdrInSNoVal', 3, 4, inv),
    'HdrInCPlain': lambda inv=(): sc('MC_HdrInCPlain', 3, 4, inv),
    'HdrOutCNoNorm': lambda inv=(): sc('MC_HdrOutCNoNorm', 3, 4, inv),
    'HdrOutSNoVal': lambda inv=(): sc('MC_HdrOutSNoVal', 3, 4, inv),
    'TableS': lambda inv=(): sc('MC_TableS', 4, 5, inv),
    'AltNoValC': lambda inv=(): sc('MC_AltNoValC', 4, 5, inv),
    'QuietS': lambda inv=(): sc('MC_QuietS', 4, 6, inv),
    'QuietC': lambda inv=(): sc('MC_QuietC', 4, 6, inv),
}


def only(tier, module, depth, inv):
    return {'module': module, 'depth': {tier: depth}, 'invariants': list(inv)}


def scen(names, inv):
    return [SCEN[n](list(inv)) for n in names.split()]


PROPS = {
    'C01': {'scenarios': scen('Pair1', ['P_C01_DeliveredSendsAccepted', 'RaisingCallEmitsNothing']) + [sc('MC_Pair2', 5, 7, ['P_C01_DeliveredSendsAccepted', 'RaisingCallEmitsNothing'])],
            'lens': [(ALL_PUBLIC + ['z'], ANY)]},
    'C02': {'scenarios': scen('Pair1 LifeS LifeC MiscC FrameS BigC BigS PushS', ['P_C02_FramesWithinLimits', 'RaisingCallEmitsNothing']),
            'lens': [(['o'], ANY), (['q.mof', 'z.hp', 'z.streams.mof'], ANY)]},
    'C03': {'scenarios': scen('FlowS SetC PushS ConnOutS', ['P_C03_SendWithinWindows', 'P_C03_WindowsBounded']),
            'lens': [(['q.lw', 'z.ow', 'z.streams.ow'], ANY), (['r', 'o'], S('call:data')), (['r', 'e'], S('frame:WU'))]},
    'C04': {'scenarios': scen('FlowS CloseS PushC ConnWinS', ['P_C04_InboundDataExactlyAtWindow', 'P_C04_RemoteWindowIsAdvertised']),
            'lens': [(['q.rw', 'z.iw', 'z.streams.iw'], ANY), (['r', 'o', 'e'], S('frame:DATA', 'call:inc', 'call:ack'))]},
    'C05': {'scenarios': scen('FlowS StallS PushC', ['P_C05_AutoUpdateWithinBounds', 'P_C05_NoStall']),
            'lens': [(['r', 'o', 'q.rw', 'z.iw', 'z.streams.iw'], S('call:ack')), (['q.rw', 'z.iw', 'z.streams.iw'], S('frame:DATA', 'frame:SET'))]},
    'C06': {'scenarios': scen('LifeS LifeC PushC', GENERIC + ['P_C06_StreamStatesAreRfcStates']),
            'lens': [(['r', 'o', 'e'] + STATE_FSM, ANY)]},
    'C07': {'scenarios': scen('LifeS LifeC Pair1 PushC HdrInSNoVal', ['P_C07_EventsFitRole', 'P_C07_EventGrammar']),
            'lens': [(['e'] + STATE_FSM, S('recv', 'dlv')), (['r'], S('frame:HEADERS', 'frame:DATA'))]},
    'C08': {'scenarios': scen('LifeS LifeC MiscC MiscS PushS', ['P_C08_RoleRestrictedSends', 'RaisingCallEmitsNothing']),
            'lens': [(['r', 'o'] + STATE_FSM, S('call:hdr', 'call:data', 'call:end', 'call:push', 'call:alt', 'call:prio')), (['z.conn'], ANY)]},
    'C09': {'scenarios': scen('LifeS LifeC SetC PushC IdsC PushS', ['P_C09_IdsIncreaseWithParity']),
            'lens': [(['q.nx', 'z.hiIn', 'z.hiOut', 'z.closed', 'z.streams.by'], ANY), (['r', 'o', 'e'], S('call:hdr', 'call:push', 'call:next', 'frame:HEADERS', 'frame:PP', 'frame:PRIO'))]},
    'C10': {'scenarios': scen('SetC SetS LifeS PushS', ['P_C10_OutboundWithinPeerLimit']),
            'lens': [(['r'], S('call:oin', 'call:oout')), (['r', 'o', 'e'], S('call:hdr', 'frame:HEADERS')), (['z.streams.st', 'z.streams', 'z.rs', 'z.ls'], ANY)]},
    'C11': {'scenarios': scen('SetC SetS PushS TableS', ['P_C11_PeerSettingsAckedOnce']) + [only('thorough', 'MC_SetEnumS', 3, ['P_C11_PeerSettingsAckedOnce'])],
            # "applied at once / enforced from the acknowledgement": the consumers of a setting belong to the property
            'lens': [(['r', 'o', 'e', 'z.ls', 'z.rs', 'q.mof', 'q.mif', 'q.lw', 'q.rw', 'z.hdrCap', 'z.hp', 'z.ow', 'z.streams.ow',
                       'z.streams.iw', 'z.streams.mof'], S('call:set', 'frame:SET')), (['z.ls', 'z.rs'], ANY)]},
    'C12': {'scenarios': scen('SetS SetC CloseS PushS UpgS', ['P_C12_SettingsValidation']) + [sc('MC_SetEnumS', 2, 3, ['P_C12_SettingsValidation'])],
            'lens': [(['r', 'o', 'e', 'q.lw', 'q.rw', 'z.streams.ow', 'z.streams.iw', 'z.ow'], S('call:set', 'frame:SET', 'call:upg'))]},
    'C13': {'scenarios': scen('Pair1 HdrOutC HdrOutS PushS TableS HdrOutCNoNorm', ['P_C13_CleanSendsDecode']),
            'lens': [(['o', 'r'], S('call:hdr', 'call:push')), (['r', 'e'], S('dlv')), (['z.hp'], ANY)]},
    'C14': {'scenarios': scen('HdrOutC HdrOutS Pair1', ['P_C14_EmittedBlocksConformant'])
            + [sc('MC_HdrEnumOutC', 2, 2, ['P_C14_EmittedBlocksConformant']), sc('MC_HdrEnumOutS', 2, 2, ['P_C14_EmittedBlocksConformant']),
               only('thorough', 'MC_HdrEnumOutC2', 2, ['P_C14_EmittedBlocksConformant']),
               only('thorough', 'MC_HdrEnumOutS2', 2, ['P_C14_EmittedBlocksConformant'])],
            'lens': [(['r', 'o'], S('call:hdr', 'call:push'))]},
    'C15': {'scenarios': scen('HdrInS HdrInC HdrInCPlain', ['P_C15_DeliveredBlocksConformant'])
            + [sc('MC_HdrEnumInS', 2, 2, ['P_C15_DeliveredBlocksConformant']), sc('MC_HdrEnumInC', 2, 2, ['P_C15_DeliveredBlocksConformant']),
               only('thorough', 'MC_HdrEnumInS2', 2, ['P_C15_DeliveredBlocksConformant']),
               only('thorough', 'MC_HdrEnumInC2', 2, ['P_C15_DeliveredBlocksConformant'])],
            'lens': [(['r', 'e', 'o'], S('frame:HEADERS', 'frame:PP'))]},
    'C16': {'scenarios': scen('LenC LenS LenC2 PushC', ['P_C16_ContentLength']),
            'lens': [(['r', 'e', 'o', 'z.streams.ecl', 'z.streams.acl', 'z.streams.meth'], S('frame:HEADERS', 'frame:DATA', 'frame:PP'))]},
    'C17': {'scenarios': scen('CloseS HdrInS HdrInC LifeC RawS RawC HdrInSNoVal HdrInCPlain AltNoValC MiscC PushC', ['OnlyKnownExceptions'])
            + [sc('MC_HdrEnumInS', 2, 2, ['OnlyKnownExceptions']), sc('MC_HdrEnumInC', 2, 2, ['OnlyKnownExceptions'])],
            'lens': [(['r'], S('recv', 'dlv'))]},
    'C18': {'scenarios': scen('CloseS LifeS SetS HdrInS FrameS RawS RawC', ['P_C18_OneGoAwayWithCode', 'P_C18_SizeViolationsAreFrameSizeErrors']),
            'lens': [(['r', 'o'], S('recv', 'dlv'))]},
    'C19': {'scenarios': scen('CloseS MiscC QuietS QuietC', ['P_C19_ClosedStaysQuiet', 'P_C19_GoAwayDiscardsOutput']),
            'lens': [(['r', 'o', 'z.conn'], ANY)]},
    'C20': {'scenarios': scen('LifeC LifeS Pair1 PushC SplitResetC', ['P_C20_ResetRacesAreStreamErrors']),
            'lens': [(['r', 'o', 'e', 'q.rw', 'z.iw', 'z.closed', 'z.streams.by', 'z.hp', 'z.hb', 'z.conn'], S('recv', 'dlv')), (['z.hb'], ANY)]},
    'C21': {'scenarios': [dict(s, chunked=True) for s in scen('LifeS LifeC MiscC CloseS FrameS RawS RawC', [])],
            'lens': [(['r', 'o', 'e'], S('recv', 'dlv'))]},
    'C22': {'scenarios': scen('LifeC SetC MiscS Pair1 PushC PushS PushOffC', ['P_C22_PushOnlyWhenAllowed']),
            'lens': [(['r', 'o', 'e'] + STATE_FSM, S('call:push', 'frame:PP')), (['r', 'e'], S('frame:HEADERS', 'frame:DATA'))]},
    'C23': {'scenarios': scen('MiscC MiscS PushS', ['P_C23_PriorityChangesNothing']),
            'lens': [(['r', 'o', 'e'], S('call:prio', 'frame:PRIO')), (['r', 'o', 'e'], S('call:hdr', 'frame:HEADERS')),
                     (['z.streams', 'z.closed', 'z.ow', 'z.iw'], S('call:prio', 'frame:PRIO'))]},
    'C24': {'scenarios': scen('MiscC MiscS AltNoValC', ['P_C24_AltSvcRules']),
            'lens': [(['r', 'o', 'e'], S('call:alt', 'frame:ALT')), (['z.streams.auth'], ANY)]},
    'C25': {'scenarios': scen('UpgPair UpgS UpgC', ['P_C25_UpgradeHandsOver', 'RaisingCallEmitsNothing']),
            'lens': [(ALL_PUBLIC + STATE_FSM + ['z.rs', 'z.ls', 'z.hiIn', 'z.hiOut', 'z.streams.ow', 'z.ow'], ANY)]},
    'C26': {'scenarios': scen('MiscC MiscS CloseS BacklogS', ['P_C26_PingAnsweredOnce']),
            'lens': [(['r', 'o', 'e'], S('call:ping', 'frame:PING'))]},
    'C27': {'scenarios': scen('CloseS MiscS MiscC LifeS HdrInS PushC RawS SetS TableS', ['P_C27_ClosedMemoryBounded', 'P_C27_NoStateForNonOpeningFrames']),
            'lens': [(['z.streams', 'z.closed', 'z.pend', 'z.hb'], ANY), (['r', 'o'], S('frame:HEADERS', 'frame:PP', 'frame:CONT', 'frame:RAW'))]},
    'C28': {'scenarios': [dict(s, hashseeds=True) for s in scen('Pair1 SetS MiscC HdrInS HdrInC', [])],
            'lens': [(ALL_PUBLIC, ANY)]},
    'C29': {'scenarios': scen('LifeS LifeC MiscC MiscS CloseS SetS FlowS BigC BigS UpgS PushS HdrOutSNoVal', GENERIC),
            'lens': [(['r', 'o'], S('call'))]},
}


# ---------------------------------------------------------------- trace validation (code -> spec) per property
# Each entry: recorded random executions of the real code (harness/gen.py) validated by TLC against spec/Trace.tla.
# profile: 's' | 'c' | 'pair'; flavour: what the inputs concentrate on; n = traces (quick, thorough); length (quick, thorough)
def tvp(profile, flavour, n=(12, 300), length=(60, 120), **kw):
    d = {'profile': profile, 'flavour': flavour, 'n': {'quick': n[0], 'thorough': n[1]},
         'length': {'quick': length[0], 'thorough': length[1]}}
    d.update(kw)
    return d


def tvs(profiles, flavours, **kw):
    return [tvp(p, f, **kw) for p in profiles.split() for f in flavours.split()]


TV = {
    'C01': tvs('pair', 'mix life flow push', n=(16, 400)),
    'C02': tvs('s c', 'mix headers misc') + tvs('pair', 'mix'),
    'C03': tvs('s c pair', 'flow', n=(20, 600)),
    'C04': tvs('s c pair', 'flow', n=(20, 600)),
    'C05': tvs('s c', 'flow', n=(30, 900)),
    'C06': tvs('s c pair', 'life', n=(20, 500), max_closed=[None, 3]),
    'C07': tvs('s c', 'life headers', chaos=0.15),
    'C08': tvs('s c', 'life misc push', chaos=0.3),
    'C09': tvs('s c', 'life push', chaos=0.15),
    'C10': tvs('s c', 'life push settings') + tvs('pair', 'push'),
    'C11': tvs('s c pair', 'settings', n=(20, 600)),
    'C12': tvs('s c', 'settings', n=(20, 600), chaos=0.3),
    'C13': tvs('pair', 'headers mix', n=(24, 600), chaos=0.2),
    # configurations: outbound / inbound validation and normalisation switched off one by one, header_encoding
    'C14': tvs('s c', 'headers', n=(24, 600), chaos=0.2, cfgs=[None, {'c': {'no': False}, 's': {'no': False}},
                                                              {'c': {'vo': False}, 's': {'vo': False}},
                                                              {'c': {'vo': False, 'no': False}, 's': {'vo': False, 'no': False}}]),
    'C15': tvs('s c', 'headers', n=(24, 600), chaos=0.2, cfgs=[None, {'c': {'enc': True}, 's': {'enc': True}},
                                                              {'c': {'vi': False}, 's': {'vi': False}},
                                                              {'c': {'ni': False}, 's': {'ni': False}}]),
    'C16': tvs('s c', 'mix flow headers'),
    'C17': tvs('s c', 'mix close headers raw', chaos=0.35, cfgs=[None, {'c': {'enc': True}, 's': {'enc': True}},
                                                                {'c': {'vi': False}, 's': {'vi': False}}]),
    'C18': tvs('s c', 'mix close settings raw', chaos=0.35),
    'C19': tvs('s c pair', 'close', n=(20, 500), chaos=0.2),
    'C20': tvs('s c pair', 'life push', max_closed=[None, 2]),
    'C21': tvs('s c', 'mix life raw', chunked=True) + tvs('pair', 'mix', chunked=True),
    'C22': tvs('s c pair', 'push', n=(20, 600)),
    'C23': tvs('s c pair', 'misc'),
    'C24': tvs('s c pair', 'misc'),
    'C25': tvs('s c pair', 'upgrade', n=(16, 400)),
    'C26': tvs('s c pair', 'misc'),
    'C27': tvs('s c', 'life push raw settings', max_closed=[2, 4], chaos=0.15),
    'C28': tvs('s c pair', 'mix', hashseeds=True),
    'C29': tvs('s c', 'mix life misc', chaos=0.4),
}


# ---------------------------------------------------------------- the repository's own tests as recorded traces
# quick: the test files closest to the property; thorough: the whole suite.  (harness/recplug.py records what the tests do to
# every H2Connection they create; the recordings are validated by TLC like the random ones.)
ALL_TESTS = ['test']
CORPUS = {
    'C01': ['test/test_interacting_stacks.py', 'test/test_complex_logic.py', 'test/test_related_events.py'],
    'C02': ['test/test_priority.py', 'test/test_complex_logic.py', 'test/test_informational_responses.py'],
    'C03': ['test/test_flow_control_window.py'],
    'C04': ['test/test_flow_control_window.py'],
    'C05': ['test/test_flow_control_window.py'],
    'C06': ['test/test_closed_streams.py', 'test/test_stream_reset.py', 'test/test_invalid_frame_sequences.py'],
    'C07': ['test/test_related_events.py', 'test/test_informational_responses.py', 'test/test_invalid_frame_sequences.py'],
    'C08': ['test/test_informational_responses.py', 'test/test_rfc7838.py', 'test/test_priority.py'],
    'C09': ['test/test_closed_streams.py', 'test/test_complex_logic.py'],
    'C10': ['test/test_complex_logic.py', 'test/test_closed_streams.py'],
    'C11': ['test/test_complex_logic.py', 'test/test_flow_control_window.py'],
    'C12': ['test/test_flow_control_window.py', 'test/test_rfc8441.py'],
    'C13': ['test/test_interacting_stacks.py', 'test/test_stream_reset.py', 'test/test_rfc8441.py'],
    'C14': ['test/test_invalid_headers.py'],
    'C15': ['test/test_invalid_headers.py'],
    'C16': ['test/test_invalid_content_lengths.py', 'test/test_head_request.py', 'test/test_informational_responses.py'],
    'C17': ['test/test_invalid_frame_sequences.py', 'test/test_closed_streams.py'],
    'C18': ['test/test_invalid_frame_sequences.py', 'test/test_invalid_content_lengths.py'],
    'C19': ['test/test_closed_streams.py', 'test/test_invalid_frame_sequences.py'],
    'C20': ['test/test_stream_reset.py', 'test/test_closed_streams.py'],
    'C21': ['test/test_complex_logic.py', 'test/test_related_events.py'],
    'C22': ['test/test_closed_streams.py', 'test/test_stream_reset.py'],
    'C23': ['test/test_priority.py'],
    'C24': ['test/test_rfc7838.py'],
    'C25': ['test/test_h2_upgrade.py'],
    'C26': ['test/test_complex_logic.py'],
    'C27': ['test/test_closed_streams.py', 'test/test_utility_functions.py'],
    'C28': ['test/test_interacting_stacks.py', 'test/test_rfc7838.py'],
    'C29': ['test/test_priority.py', 'test/test_h2_upgrade.py', 'test/test_rfc7838.py'],
}

# ---------------------------------------------------------------- unbounded obligations discharged by Apalache (inductive invariants)
# (module under spec/apalache, [(init, inv, length, what)])
APALACHE = {
    'C05': ('WindowsInd', [('Init', 'IndInv', 0, 'the invariant holds initially, for every maximum 0..2^31-1'),
                           ('IndInit', 'IndInv', 1, 'every step (DATA that fits, acknowledgement of any size) preserves it'),
                           ('IndInit', 'Goal', 0, 'it implies: no stall once everything is acknowledged; never above the maximum / 2^31-1')]),
}

# formulas of spec/Scn.tla that belong to each property (a PROPFAIL of one of them on a recorded trace is a violation of it)
# thorough tier: the main scenario models once more at their quick depth with one more step of history in the view (one witness
# per pair of consecutive steps instead of one per step): where the code keeps state the specification does not, every next step
# is then tried after each of the calls that lead to the same specification state
PAIRS_OF_STEPS = {'MC_LifeS', 'MC_LifeC', 'MC_CloseS', 'MC_MiscC', 'MC_MiscS', 'MC_SetS', 'MC_SetC', 'MC_PushC', 'MC_PushS', 'MC_FlowS',
                  'MC_QuietS', 'MC_QuietC', 'MC_TableS', 'MC_UpgS', 'MC_UpgC'}
for _pid, _sp in PROPS.items():
    for _s in list(_sp['scenarios']):
        if _s['module'] in PAIRS_OF_STEPS and 'quick' in _s['depth'] and not _s.get('view') and not _s.get('chunked') and not _s.get('hashseeds'):
            _v = {k: v for k, v in _s.items() if k != 'depth'}
            _v.update(depth={'thorough': _s['depth']['quick']}, view='GenView2')
            _sp['scenarios'].append(_v)

FORMULAS = {pid: sorted({i for sc_ in PROPS[pid]['scenarios'] for i in sc_.get('invariants', [])}) for pid in PROPS}
FORMULAS['C10'] = FORMULAS['C10'] + ['P_C10_InboundWithinLocalLimit']

NOT_APPLICABLE = {}


# Footprint of each deviation branch: the observation fields in which the as-built behaviour at the step that TAKES the branch
# differs from what the properties demand (a repair would change these, and only these, at that step).  A divergence at that
# step in a field outside the footprint is judged whether or not the finding still reproduces: there the as-built model and any
# repair agree.  '*' = every field.  (Steps AFTER the branch are judged only while the finding still reproduces.)
FOOTPRINT = {
    'misuse_closes_stream': ['z.streams', 'z.closed'],
    'misuse_closes_connection': ['z.conn'],
    'failed_send_partial_state': ['z'],
    'update_settings_partial': ['z.ls'],
    'data_before_headers': ['*'],
    'client_accepts_request': ['*'],
    'refused_push_forgotten': ['z.closed', 'z.hiIn'],
    'hpack_error_code': ['r', 'o'],
    'ack_data_when_closed': ['o', 'z.iw', 'z.streams.iw', 'q.rw', 'r'],
    'rst_on_closed_connection': ['o'],
    'client_advertises_idle': ['*'],
    'server_opens_stream': ['*'],
    'ack_per_key': ['*'],
    'setting_id_truncated': ['o'],
    'push_bypasses_stream_limit': ['*'],
    'hpack_size_update_dropped': ['z.hp'],
    'hpack_size_update_intermediate': ['z.hp', 'o'],
    'frame_size_limit_snapshot': ['*'],
    'sends_before_preamble': ['*'],
    'second_initiate_emits_preamble': ['*'],
    'upgrade_raises_after_preamble': ['o', 'z'],
    'header_frame_exceeds_limit': ['*'],
    'settings_shrink_stalls_window': ['o', 'z.streams.iw', 'z.streams', 'q.rw'],
    'content_length_rule_differs': ['*'],
    'stream_id_above_max': ['*'],
    'settings_ack_length_code': ['r', 'o'],
}


def _in_prefixes(f, prefixes):
    return '*' in prefixes or any(f == p or f.startswith(p + '.') for p in prefixes)


# deviations whose recorded defect is a dependence on chunk boundaries
CHUNK_DEPENDENT = {'frame_size_limit_snapshot'}
# deviation branches taken by a public call that raises: as built the call leaves state behind, the properties (C01, C06, C11,
# C13, C29) demand that a raising call changes nothing
RAISING_CALL_CHANGES_NOTHING = {'failed_send_partial_state', 'misuse_closes_stream', 'misuse_closes_connection', 'update_settings_partial'}


def tainted(d, alive=None):
    """Is this divergence on a step whose prediction is the recorded behaviour of a known finding that the current tree no
    longer shows?  `alive` is the set of deviation branches whose recorded finding still reproduces exactly on the current
    tree: on such branches the as-built model is still the right prediction, so steps on and after them are judged like any
    other.  At the step that takes a branch which is not alive, only the fields outside the branch's footprint are judged
    (d['fields'] is narrowed to them).  (alive=None: no deviation is taken to be alive.)"""
    alive = alive or set()
    before = set(d.get('dev_before') or [])
    new = set(d.get('dev', [])) - before
    if d.get('chunked') and (before | new) & CHUNK_DEPENDENT:
        # the finding itself is that the outcome depends on how the bytes are split: when the input is fed in pieces the
        # as-built model (stated on whole receive_data() calls) does not predict the step
        return True
    if before - alive:
        return True
    dead = new - alive
    if not dead:
        return False
    fp = [p for dv in dead for p in FOOTPRINT.get(dv, ['*'])]
    outside = [f for f in d.get('fields', []) if not _in_prefixes(f, fp)]
    if not outside and dead <= RAISING_CALL_CHANGES_NOTHING and d.get('a') == 'call' and d.get('pre_z') is not None \
            and (d.get('obs_r') or {}).get('c') not in (None, 'ok'):
        # The branch is a call that raises and, as built, leaves state behind; what every property demands there is that it
        # changes nothing.  The code no longer does what the finding recorded: if it left the state exactly as it was, the
        # defect was repaired (not judged); if it changed the state in yet another way, that is neither the recorded finding
        # nor its repair, and it is judged.
        from harness import driver
        changed = driver.diff({'z': d['pre_z']}, {'z': d.get('obs_z')})
        if changed:
            d['fields_all'] = d.get('fields', [])
            d['fields'] = sorted(set(d.get('fields', [])) | set(changed))
            d['what'] = (d.get('what') or '') + ' (a raising call changed state: neither the recorded finding %s nor its repair)' % sorted(dead)
            return False
    if not outside:
        return True
    d['fields_all'] = d.get('fields', [])
    d['fields'] = outside
    return False


def tags(d):
    t = set()
    a = d.get('a')
    call = d.get('call')
    if a == 'call':
        t.add('call')
        if isinstance(call, dict):
            t.add('call:' + str(call.get('op')))
    elif a == 'recv':
        t.add('recv')
        for f in call or []:
            if isinstance(f, dict):
                t.add('frame:' + str(f.get('t')))
    elif a == 'dlv':
        t.add('dlv')
        for ty in d.get('frame_types', []):
            t.add('frame:' + ty)
    for ty in d.get('pend_types', []):        # frames left in the input buffer by an earlier call are handled by this one
        t.add('frame:' + ty)
    return t


def in_lens(pid, d):
    tg = tags(d)
    for prefixes, flt in PROPS[pid]['lens']:
        if flt is not None and not (flt & tg):
            continue
        for f in d.get('fields', []):
            if any(f == p or f.startswith(p + '.') for p in prefixes):
                return True
    return False
