"""pytest plugin: records what the repository's OWN tests do to H2Connection objects, as traces for spec/Trace.tla.

    PYTHONPATH=/verif REC_OUT=<file.json> pytest -p harness.recplug test/...

Every H2Connection a test creates gets a recorder.  Each top-level public call becomes one step in the scenario frame's
format with the observation the harness would record: result / exception, the frames the call APPENDED to the output buffer
(peeked, not taken: the test takes its output when it pleases; step flag ap), events, window queries, state projection.
receive_data(bytes) becomes a `recv` step whose frames are given by the structure of their octets (RAW frames: the frame-layer
rules are the specification's) or, for header blocks, by the decoded field list (tokens) and the table-size updates found at the
head of the block.  Nothing is judged here.  What cannot be expressed in the step format (a frame cut across two calls is
simply held back; odd argument types, dict headers, partial data_to_send) ends the recording of that connection ("stop").
Nothing in /repo is modified: the wrapping happens in the test process only.
"""
import base64
import functools
import json
import os

import pytest

from . import absn, wire
from . import driver

QSIDS = [1, 2, 3, 4, 5]
_RECS = []
_CUR_TEST = ['?']


def _hpack_int(buf, i, prefix_bits):
    mask = (1 << prefix_bits) - 1
    v = buf[i] & mask
    i += 1
    if v < mask:
        return v, i
    m = 0
    while i < len(buf):
        b = buf[i]
        i += 1
        v += (b & 0x7F) << m
        m += 7
        if not b & 0x80:
            return v, i
    raise ValueError('truncated integer')


def table_size_updates(block):
    """The dynamic-table size updates at the head of an HPACK block (RFC 7541 6.3)."""
    out, i = [], 0
    try:
        while i < len(block) and (block[i] & 0xE0) == 0x20:
            v, i = _hpack_int(block, i, 5)
            out.append(absn.i32(v))
    except ValueError:
        pass
    return out


_PRISTINE = {}
_NOREC = [False]


def pristine(role):
    """State projection of a freshly constructed connection of this role."""
    if role not in _PRISTINE:
        import h2.connection
        import h2.config
        _NOREC[0] = True
        try:
            _PRISTINE[role] = driver.zstate_of(h2.connection.H2Connection(h2.config.H2Configuration(client_side=(role == 'c'))))
        finally:
            _NOREC[0] = False
    return _PRISTINE[role]


class Rec:
    def __init__(self, conn):
        self.conn = conn
        self.role = 'c' if conn.config.client_side else 's'
        cfg = conn.config
        self.cfg = {'vi': bool(cfg.validate_inbound_headers), 'ni': bool(cfg.normalize_inbound_headers),
                    'vo': bool(cfg.validate_outbound_headers), 'no': bool(cfg.normalize_outbound_headers),
                    'enc': bool(cfg.header_encoding)}
        self.encoding_ok = cfg.header_encoding in (None, False, 'utf-8', 'utf8', 'UTF-8')
        self.steps = []
        self.stopped = None if self.encoding_ok else 'header_encoding other than utf-8'
        self.obs = absn.Observer(expect_preface=(self.role == 'c'))
        from hpack import Decoder
        self.indec = Decoder()
        self.indec.max_header_list_size = 2 ** 18
        self.indec.max_allowed_table_size = 2 ** 32
        self.inbuf = b''
        self.preface_seen = self.role == 'c'
        self.pre_pending = False
        self.out_seen = 0
        self.depth = 0
        self.test = _CUR_TEST[0]
        self.max_closed = getattr(conn, 'MAX_CLOSED_STREAMS', 65536)

    # ------------------------------------------------------------ observation
    def appended(self):
        buf = bytes(self.conn._data_to_send)
        if len(buf) >= self.out_seen:
            new = buf[self.out_seen:]
        else:
            new = buf            # the buffer was discarded (GOAWAY received) and refilled
        self.out_seen = len(buf)
        frames = self.obs.feed(new)
        if self.obs.rest:
            self.stop('output does not end at a frame boundary')
        bls = [f['_bl'] for f in frames if '_bl' in f]
        for f in frames:
            if '_sizes' in f:
                f['sizes'] = f['_sizes']
        pub = []
        for f in frames:
            g = {k: v for k, v in f.items() if not k.startswith('_') and k != 'pre'}
            if g['t'] in ('HEADERS', 'PP'):
                g.pop('pad', None)
            pub.append(g)
        return pub, bls

    def observe(self, res, evs):
        o, bls = self.appended()
        p = {'r': res, 'o': o, 'e': evs, 'q': driver.queries_of(self.conn, QSIDS), 'z': driver.zstate_of(self.conn)}
        return p, bls

    def stop(self, why):
        if self.stopped is None:
            self.stopped = why

    STEP_LIMIT = 300

    def untouched(self):
        """Did the test leave the connection alone since the last recorded step?  (Tests that reach into private state --
        windows, settings objects, _begin_new_stream, config -- are not executions of the public API.)"""
        if self.stopped is not None:
            return False
        if len(self.steps) >= self.STEP_LIMIT:
            self.stop('step limit')
            return False
        cfg = self.conn.config
        now = {'vi': bool(cfg.validate_inbound_headers), 'ni': bool(cfg.normalize_inbound_headers),
               'vo': bool(cfg.validate_outbound_headers), 'no': bool(cfg.normalize_outbound_headers), 'enc': bool(cfg.header_encoding)}
        if now != self.cfg:
            self.stop('the test changed the configuration of a live connection')
            return False
        if self.steps:
            if driver.zstate_of(self.conn) != self.steps[-1]['p']['z'] or \
                    driver.queries_of(self.conn, QSIDS) != self.steps[-1]['p']['q']:
                self.stop('the test touched private state between two calls')
                return False
        elif driver.zstate_of(self.conn) != pristine(self.role) or \
                (self.conn.max_outbound_frame_size, self.conn.max_inbound_frame_size) != (16384, 16384):
            self.stop('the test touched private state before the first call')
            return False
        return True

    def add(self, step, res, evs):
        p, bls = self.observe(res, evs)
        if self.stopped is not None:
            return
        if step.get('a') == 'call' and step['c'].get('op') in ('hdr', 'push') and bls:
            step['c']['bl'] = bls[0]
        step['p'] = p
        self.steps.append(step)

    # ------------------------------------------------------------ inbound bytes -> frames
    def frames_of(self, data):
        buf = self.inbuf + bytes(data)
        pre = False
        if not self.preface_seen:
            if len(buf) < len(wire.PREFACE):
                if wire.PREFACE.startswith(buf):
                    self.inbuf = buf
                    return [], None
                return None, 'no client preface'
            if not buf.startswith(wire.PREFACE):
                return None, 'no client preface'
            buf = buf[len(wire.PREFACE):]
            self.preface_seen = True
            self.pre_pending = True
        out = []
        if self.role == 'c' and buf.startswith(wire.PREFACE):
            # a client preface sent TO a client: read as the header of a huge frame (the specification has this case)
            out.append({'t': 'PREFACE'})
            buf = buf[len(wire.PREFACE):]
        raw, rest = wire.split_frames(buf)
        self.inbuf = rest
        i = 0
        while i < len(raw):
            typ, fl, sid_raw, payload = raw[i]
            sid = sid_raw & 0x7FFFFFFF
            ln = len(payload)
            pad = payload[0] if (fl & 0x8) and ln > 0 and typ in (0, 1, 5) else -1
            f = {'t': 'RAW', 'typ': typ, 'fl': fl, 'sid': sid, 'len': ln, 'pad': pad}
            if typ == 0:
                body = payload
                if fl & 0x8:
                    body = payload[1:ln - pad] if ln > 0 and (pad == 0 or pad < ln) else b''
                f['tag'] = absn.payload_tag(bytes(body))
            elif typ in (1, 5):
                j = i
                frags = [raw[i]]
                ok = True
                while not (raw[j][1] & 0x4):
                    j += 1
                    if j >= len(raw) or raw[j][0] != 9 or (raw[j][2] & 0x7FFFFFFF) != sid:
                        ok = False
                        break
                    frags.append(raw[j])
                pf = wire.parse_frame(typ, fl, sid_raw, payload)
                if not ok or pf['t'] == 'MALFORMED' or sid == 0:
                    return None, 'header block with unusual framing'
                block = pf['block'] + b''.join(fr[3] for fr in frags[1:])
                g = {'t': 'HEADERS' if typ == 1 else 'PP', 'sid': sid, 'blk': 'ok', 'h': 'x', 'tsu': table_size_updates(block)}
                try:
                    from hpack import NeverIndexedHeaderTuple, OversizedHeaderListError
                    try:
                        hs = self.indec.decode(block, raw=True)
                    except OversizedHeaderListError:
                        return None, 'header block that inflates beyond what is worth logging'

                    g['hx'] = [absn.tok(h[0], h[1], 'N' if isinstance(h, NeverIndexedHeaderTuple) else 't') for h in hs]
                except Exception:
                    g['blk'] = 'bad'
                    g['hx'] = []
                    g['tsu'] = []
                if typ == 1:
                    g['es'] = bool(fl & 0x1)
                    g['pr'] = pf['prio'] if pf['prio'] is not None else []
                else:
                    g['pid'] = pf['promised']
                    if pf['promised'] == 0 or pf['promised'] % 2:
                        return None, 'push promise with an invalid promised id'
                sizes = [len(fr[3]) for fr in frags]
                g['sizes'] = sizes
                out.append(g)
                i = j + 1
                continue
            elif typ == 9:
                f = {'t': 'CONT', 'sid': sid}
                if sid == 0:
                    return None, 'continuation on stream 0'
            elif typ == 2:
                d = int.from_bytes((payload + b'\0' * 5)[:4], 'big')
                f.update(w=(payload + b'\0' * 5)[4] + 1, dep=d & 0x7FFFFFFF, excl=bool(d >> 31))
            elif typ == 3:
                f['code'] = absn.i32(int.from_bytes((payload + b'\0' * 4)[:4], 'big'))
            elif typ == 4:
                f['s'] = [[int.from_bytes(payload[k:k + 2], 'big'), absn.i32(int.from_bytes(payload[k + 2:k + 6], 'big'))]
                          for k in range(0, ln - ln % 6, 6)]
            elif typ == 6:
                f['tag'] = absn.opaque_tag(payload[:8]) if ln >= 8 else 'A'
            elif typ == 7:
                q = payload + b'\0' * 8
                f.update(last=int.from_bytes(q[:4], 'big') & 0x7FFFFFFF, code=absn.i32(int.from_bytes(q[4:8], 'big')),
                         tag=absn.opaque_tag(payload[8:]) if ln > 8 else '-')
            elif typ == 8:
                f['inc'] = absn.i32(int.from_bytes((payload + b'\0' * 4)[:4], 'big'))
            elif typ == 10:
                olen = int.from_bytes((payload + b'\0' * 2)[:2], 'big')
                f.update(olen=olen, org=absn.text_tag(payload[2:2 + olen]), fld=absn.text_tag(payload[2 + olen:]))
                if any(not (32 <= c < 127) for c in payload[2:]):
                    return None, 'non-printable alt-svc text'
            out.append(f)
            i += 1
        note = None
        if out and self.pre_pending:
            note = 'pre'
            self.pre_pending = False
        return out, note


def _toks(headers):
    from hpack import HeaderTuple, NeverIndexedHeaderTuple
    if isinstance(headers, dict) or not isinstance(headers, (list, tuple)):
        raise TypeError('header list type')
    out = []
    for h in headers:
        if not isinstance(h, tuple) or len(h) != 2:
            raise TypeError('header field type')
        n, v = h
        if not isinstance(n, (bytes, str)) or not isinstance(v, (bytes, str)) or isinstance(n, bytes) != isinstance(v, bytes):
            raise TypeError('header field text type')
        kind = 'N' if isinstance(h, NeverIndexedHeaderTuple) else ('H' if isinstance(h, HeaderTuple) else 't')
        t = absn.tok(n, v, kind)
        if absn.printable(t['n']) != t['n'] or absn.printable(t['v']) != t['v']:
            raise TypeError('non-printable header text')
        out.append(t)
    return out


def _optint(v):
    if v is None:
        return []
    if isinstance(v, bool) or not isinstance(v, int):
        raise TypeError('int expected')
    return [v]


def _int(v):
    if isinstance(v, bool) or not isinstance(v, int):
        raise TypeError('int expected')
    return absn.i32(v)


def _call_record(name, args, kw):
    """Abstract call for a public method, or raises TypeError when it cannot be expressed."""
    def arg(i, key, default=None):
        if len(args) > i:
            return args[i]
        return kw.get(key, default)
    if name == 'initiate_connection':
        return {'op': 'init'}
    if name == 'initiate_upgrade_connection':
        hdr = arg(0, 'settings_header')
        if not hdr:
            return {'op': 'upg', 'src': 'none', 's': []}
        raw = base64.urlsafe_b64decode(hdr)
        if len(raw) % 6:
            raise TypeError('settings header length')
        return {'op': 'upg', 'src': 'lit', 's': [[int.from_bytes(raw[k:k + 2], 'big'), absn.i32(int.from_bytes(raw[k + 2:k + 6], 'big'))]
                                                  for k in range(0, len(raw), 6)]}
    if name == 'send_headers':
        pr = [_optint(arg(3, 'priority_weight')), _optint(arg(4, 'priority_depends_on')),
              [] if arg(5, 'priority_exclusive') is None else [bool(arg(5, 'priority_exclusive'))]]
        if pr == [[], [], []]:
            pr = []
        return {'op': 'hdr', 'sid': _int(arg(0, 'stream_id')), 'h': 'x', 'hx': _toks(arg(1, 'headers')),
                'es': bool(arg(2, 'end_stream', False)), 'pr': pr, 'sz': True}
    if name == 'send_data':
        data = arg(1, 'data')
        pad = arg(3, 'pad_length')
        if not isinstance(data, (bytes, bytearray, memoryview)):
            raise TypeError('data type')
        if pad is not None and (isinstance(pad, bool) or not isinstance(pad, int) or pad < 0):
            raise TypeError('pad type')
        data = bytes(data)
        return {'op': 'data', 'sid': _int(arg(0, 'stream_id')), 'n': len(data), 'tag': absn.payload_tag(data),
                'es': bool(arg(2, 'end_stream', False)), 'pad': -1 if pad is None else pad}
    if name == 'end_stream':
        return {'op': 'end', 'sid': _int(arg(0, 'stream_id'))}
    if name == 'increment_flow_control_window':
        sid = arg(1, 'stream_id')
        return {'op': 'inc', 'n': _int(arg(0, 'increment')), 'sid': [] if sid is None else [_int(sid)]}
    if name == 'push_stream':
        return {'op': 'push', 'sid': _int(arg(0, 'stream_id')), 'pid': _int(arg(1, 'promised_stream_id')), 'h': 'x',
                'hx': _toks(arg(2, 'request_headers')), 'sz': True}
    if name == 'ping':
        d = arg(0, 'opaque_data')
        if not isinstance(d, bytes):
            raise TypeError('ping data type')
        return {'op': 'ping', 'tag': absn.opaque_tag(d) if len(d) == 8 else 'A', 'n': len(d)}
    if name == 'reset_stream':
        return {'op': 'rst', 'sid': _int(arg(0, 'stream_id')), 'code': _int(int(arg(1, 'error_code', 0)))}
    if name == 'close_connection':
        ad = arg(1, 'additional_data')
        last = arg(2, 'last_stream_id')
        if ad is not None and not isinstance(ad, bytes):
            raise TypeError('additional data type')
        return {'op': 'close', 'code': _int(int(arg(0, 'error_code', 0))), 'tag': [] if ad is None else [absn.opaque_tag(ad)],
                'last': [] if last is None else [_int(last)]}
    if name == 'update_settings':
        d = arg(0, 'new_settings')
        return {'op': 'set', 's': [[int(k), _int(v)] for k, v in d.items()]}
    if name == 'advertise_alternative_service':
        fv, org, sid = arg(0, 'field_value'), arg(1, 'origin'), arg(2, 'stream_id')
        if not isinstance(fv, bytes) or (org is not None and not isinstance(org, bytes)):
            raise TypeError('alt-svc text type')
        return {'op': 'alt', 'fld': absn.text_tag(fv), 'org': [] if org is None else [absn.text_tag(org)],
                'sid': [] if sid is None else [_int(sid)]}
    if name == 'prioritize':
        ex = arg(3, 'exclusive')
        return {'op': 'prio', 'sid': _int(arg(0, 'stream_id')), 'w': _optint(arg(1, 'weight')), 'dep': _optint(arg(2, 'depends_on')),
                'excl': [] if ex is None else [bool(ex)]}
    if name == 'acknowledge_received_data':
        return {'op': 'ack', 'n': _int(arg(0, 'acknowledged_size')), 'sid': _int(arg(1, 'stream_id'))}
    raise TypeError('unknown call ' + name)


CALLS = ['initiate_connection', 'initiate_upgrade_connection', 'send_headers', 'send_data', 'end_stream',
         'increment_flow_control_window', 'push_stream', 'ping', 'reset_stream', 'close_connection', 'update_settings',
         'advertise_alternative_service', 'prioritize', 'acknowledge_received_data']


def _install():
    import h2.connection as HC
    K = HC.H2Connection
    if getattr(K, '_verif_recording', False):
        return
    K._verif_recording = True
    orig_init = K.__init__

    @functools.wraps(orig_init)
    def init(self, *a, **kw):
        orig_init(self, *a, **kw)
        if _NOREC[0]:
            self._verif_rec = None
            return
        try:
            self._verif_rec = Rec(self)
            _RECS.append(self._verif_rec)
        except Exception:
            self._verif_rec = None
    K.__init__ = init

    def wrap_call(name):
        orig = getattr(K, name)

        @functools.wraps(orig)
        def w(self, *a, **kw):
            rec = getattr(self, '_verif_rec', None)
            if rec is None or rec.depth or not rec.untouched():
                return orig(self, *a, **kw)
            try:
                c = _call_record(name, a, kw)
            except Exception as e:
                rec.stop('call %s not expressible: %r' % (name, e))
                return orig(self, *a, **kw)
            rec.depth += 1
            try:
                ret = orig(self, *a, **kw)
            except BaseException as e:
                rec.depth -= 1
                rec.add({'a': 'call', 'x': rec.role, 'c': c, 'ap': True}, absn.exc_rec(e), [])
                raise
            rec.depth -= 1
            res = absn.exc_rec(None)
            if name == 'initiate_upgrade_connection':
                if ret is None:
                    res['v'] = []
                else:
                    raw = base64.urlsafe_b64decode(ret)
                    res['v'] = [[int.from_bytes(raw[k:k + 2], 'big'), absn.i32(int.from_bytes(raw[k + 2:k + 6], 'big'))]
                                for k in range(0, len(raw), 6)]
            rec.add({'a': 'call', 'x': rec.role, 'c': c, 'ap': True}, res, [])
            return ret
        setattr(K, name, w)
    for n in CALLS:
        wrap_call(n)

    orig_recv = K.receive_data

    @functools.wraps(orig_recv)
    def receive_data(self, data):
        rec = getattr(self, '_verif_rec', None)
        if rec is None or rec.depth or not rec.untouched():
            return orig_recv(self, data)
        try:
            frames, note = rec.frames_of(data)
        except Exception as e:
            frames, note = None, 'input not expressible: %r' % (e,)
        if frames is None:
            rec.stop(note)
            return orig_recv(self, data)
        step = {'a': 'recv', 'x': rec.role, 'fs': frames, 'ap': True}
        if rec.role == 's' and note != 'pre':
            step['nopre'] = True
        rec.depth += 1
        try:
            evs = orig_recv(self, data)
        except BaseException as e:
            rec.depth -= 1
            rec.add(step, absn.exc_rec(e), [])
            rec.stop('recording ends at the first input that raised (the mirrored HPACK decoder may be out of step)')
            raise
        rec.depth -= 1
        if not frames and not evs:
            rec.appended()
            return evs
        rec.add(step, absn.exc_rec(None), absn.events(evs))
        return evs
    K.receive_data = receive_data

    orig_dts = K.data_to_send

    @functools.wraps(orig_dts)
    def data_to_send(self, amount=None):
        rec = getattr(self, '_verif_rec', None)
        if rec is None or rec.depth or not rec.untouched():
            return orig_dts(self, amount)
        rec.appended()
        total = len(self._data_to_send)
        ret = orig_dts(self, amount)
        if amount is not None and amount < total:
            rec.stop('partial data_to_send')
            return ret
        rec.out_seen = 0
        rec.steps.append({'a': 'take', 'x': rec.role, 'p': {'r': absn.exc_rec(None), 'o': [], 'e': [],
                                                             'q': driver.queries_of(self, QSIDS), 'z': driver.zstate_of(self)}})
        return ret
    K.data_to_send = data_to_send

    orig_clear = K.clear_outbound_data_buffer

    @functools.wraps(orig_clear)
    def clear_outbound_data_buffer(self):
        rec = getattr(self, '_verif_rec', None)
        if rec is None or rec.depth or not rec.untouched():
            return orig_clear(self)
        rec.appended()
        ret = orig_clear(self)
        rec.out_seen = 0
        rec.steps.append({'a': 'take', 'x': rec.role, 'p': {'r': absn.exc_rec(None), 'o': [], 'e': [],
                                                             'q': driver.queries_of(self, QSIDS), 'z': driver.zstate_of(self)}})
        return ret
    K.clear_outbound_data_buffer = clear_outbound_data_buffer

    for prop, op in (('open_outbound_streams', 'oout'), ('open_inbound_streams', 'oin')):
        orig_p = getattr(K, prop)

        def getter(self, _orig=orig_p, _op=op):
            rec = getattr(self, '_verif_rec', None)
            if rec is None or rec.depth or not rec.untouched():
                return _orig.fget(self)
            rec.depth += 1
            try:
                v = _orig.fget(self)
            finally:
                rec.depth -= 1
            res = absn.exc_rec(None)
            res['v'] = v
            rec.add({'a': 'call', 'x': rec.role, 'c': {'op': _op}, 'ap': True}, res, [])
            return v
        setattr(K, prop, property(getter))


def pytest_configure(config):
    _install()


@pytest.hookimpl(tryfirst=True)
def pytest_runtest_setup(item):
    _CUR_TEST[0] = item.nodeid


def pytest_sessionfinish(session, exitstatus):
    out = os.environ.get('REC_OUT')
    if not out:
        return
    full = {'vi': True, 'ni': True, 'vo': True, 'no': True, 'enc': False}
    traces = []
    for k, r in enumerate(_RECS):
        if not r.steps:
            continue
        meta = {'roles': [r.role], 'qsids': QSIDS, 'max_closed': int(r.max_closed),
                'cfg': {'c': r.cfg if r.role == 'c' else full, 's': r.cfg if r.role == 's' else full}, 'setup': []}
        traces.append({'id': '%s#%d' % (r.test, k), 'meta': meta, 'steps': r.steps, 'stopped': r.stopped})
    worker = os.environ.get('PYTEST_XDIST_WORKER', '')
    with open(out + (('.' + worker) if worker else ''), 'w') as fh:
        json.dump(traces, fh)
