"""Executes abstract steps on real h2.connection.H2Connection objects taken from
/repo's working tree and records what the public API shows, in the JSON shapes
the TLA+ specification predicts.  Contains no protocol rules.
"""
import os
import sys

REPO_SRC = os.environ.get('H2_REPO_SRC', '/repo/src')
if REPO_SRC not in sys.path:
    sys.path.insert(0, REPO_SRC)

from . import absn, wire  # noqa: E402


def _h2():
    import h2.connection
    import h2.config
    import h2.exceptions
    return h2


def opt(seq):
    """TLA+ optional <<>> / <<v>> -> None / v"""
    return None if not seq else seq[0]


class Endpoint:
    def __init__(self, role, cfg, max_closed=None):
        h2 = _h2()
        kw = dict(client_side=(role == 'c'))
        if cfg:
            if cfg.get('enc'):
                kw['header_encoding'] = 'utf-8'
            for k_json, k_py in (('vi', 'validate_inbound_headers'), ('ni', 'normalize_inbound_headers'),
                                 ('vo', 'validate_outbound_headers'), ('no', 'normalize_outbound_headers')):
                if k_json in cfg:
                    kw[k_py] = bool(cfg[k_json])
        klass = h2.connection.H2Connection
        if max_closed is not None:
            klass = type('BoundedH2Connection', (klass,), {'MAX_CLOSED_STREAMS': max_closed})
        self.role = role
        self.conn = klass(config=h2.config.H2Configuration(**kw))
        self.obs = absn.Observer(expect_preface=(role == 'c'))
        self.adv = absn.Adversary()       # the peer's encoder when the peer is the harness
        self.adv_preface_sent = False
        self.upgrade_header = None

    # -------------------------------------------------- public calls
    def call(self, c):
        conn = self.conn
        op = c['op']
        if op == 'init':
            return conn.initiate_connection()
        if op == 'upg':
            hdr = c.get('hdr')
            if hdr == 'peer':
                hdr = self.peer_upgrade_header
            elif hdr == 'none' or hdr is None:
                hdr = None
            else:
                hdr = hdr.encode('latin-1')
            r = conn.initiate_upgrade_connection(hdr)
            self.upgrade_header = r
            return None
        if op == 'hdr':
            kw = {}
            pr = c.get('pr', [])
            if pr:
                w, dep, excl = pr
                kw = dict(priority_weight=opt(w), priority_depends_on=opt(dep), priority_exclusive=opt(excl))
            return conn.send_headers(absn.u32(c['sid']), [absn.untok(t) for t in c['h']], end_stream=c['es'], **kw)
        if op == 'data':
            pad = c.get('pad', -1)
            return conn.send_data(absn.u32(c['sid']), absn.payload(c.get('tag', 'A'), c['n']), end_stream=c['es'],
                                  pad_length=None if pad < 0 else pad)
        if op == 'end':
            return conn.end_stream(absn.u32(c['sid']))
        if op == 'inc':
            return conn.increment_flow_control_window(c['n'], stream_id=opt(c['sid']))
        if op == 'push':
            return conn.push_stream(absn.u32(c['sid']), absn.u32(c['pid']), [absn.untok(t) for t in c['h']])
        if op == 'ping':
            return conn.ping(absn.opaque(c['tag'], c.get('n', 8)))
        if op == 'rst':
            return conn.reset_stream(absn.u32(c['sid']), error_code=absn.u32(c.get('code', 0)))
        if op == 'close':
            tag = opt(c.get('tag', []))
            return conn.close_connection(error_code=absn.u32(c.get('code', 0)),
                                         additional_data=None if tag is None else absn.opaque(tag),
                                         last_stream_id=opt(c.get('last', [])))
        if op == 'set':
            import collections
            d = collections.OrderedDict()
            for i, v in c['s']:
                d[i] = absn.u32(v)
            return conn.update_settings(d)
        if op == 'alt':
            org = opt(c.get('org', []))
            return conn.advertise_alternative_service(absn.text(c['fld']),
                                                      origin=None if org is None else absn.text(org),
                                                      stream_id=opt(c.get('sid', [])))
        if op == 'prio':
            return conn.prioritize(absn.u32(c['sid']), weight=opt(c.get('w', [])), depends_on=opt(c.get('dep', [])),
                                   exclusive=opt(c.get('excl', [])))
        if op == 'ack':
            return conn.acknowledge_received_data(c['n'], absn.u32(c['sid']))
        if op == 'oin':
            return conn.open_inbound_streams
        if op == 'oout':
            return conn.open_outbound_streams
        if op == 'next':
            return conn.get_next_available_stream_id()
        if op == 'clear':
            return conn.clear_outbound_data_buffer()
        raise ValueError('unknown op ' + op)

    def take_output(self):
        data = self.conn.data_to_send()
        frames = self.obs.feed(data)
        return data, frames

    def queries(self, qsids):
        conn = self.conn
        q = {}
        lw, rw = [], []
        for sid in qsids:
            for fn, acc in ((conn.local_flow_control_window, lw), (conn.remote_flow_control_window, rw)):
                try:
                    acc.append(absn.i32(fn(sid)))
                except BaseException as e:
                    acc.append(absn.exc_rec(e)['c'])
        q['lw'] = lw
        q['rw'] = rw
        try:
            q['nx'] = conn.get_next_available_stream_id()
        except BaseException as e:
            q['nx'] = -1
        q['mof'] = conn.max_outbound_frame_size
        q['mif'] = conn.max_inbound_frame_size
        return q


def strip_private(frames):
    out = []
    for f in frames:
        g = {k: v for k, v in f.items() if not k.startswith('_')}
        out.append(g)
    return out


class Session:
    """One behaviour: one endpoint with a harness-driven peer, or a client/server pair."""

    def __init__(self, meta):
        self.meta = meta
        self.qsids = meta.get('qsids', [])
        self.eps = {}
        for role in meta['roles']:
            self.eps[role] = Endpoint(role, meta.get('cfg', {}).get(role, {}), meta.get('max_closed'))
        self.pair = len(self.eps) == 2
        # pair mode: bytes in flight towards each side, one entry per logical frame
        self.chan = {r: [] for r in self.eps}
        self.last_raw = {}

    def other(self, x):
        return 's' if x == 'c' else 'c'

    def _finish(self, x, res, evs, with_q=True):
        ep = self.eps[x]
        try:
            data, frames = ep.take_output()
        except BaseException as e:   # harness-side failure is reported as an observation
            data, frames = b'', [{'t': 'HARNESS-ERROR', 'why': repr(e)}]
        if self.pair:
            self._enqueue(self.other(x), data, frames, ep)
        self.last_raw[x] = (data, ep.obs.raw)
        o = {'r': res, 'o': strip_private(self._public(frames)), 'e': evs}
        if with_q:
            o['q'] = ep.queries(self.qsids)
        return o

    @staticmethod
    def _public(frames):
        out = []
        for f in frames:
            g = dict(f)
            g.pop('pre', None)
            if g['t'] in ('HEADERS', 'PP'):
                g.pop('pad', None)
            out.append(g)
        return out

    def _enqueue(self, to, data, frames, ep):
        # split the raw bytes per logical frame: re-serialise boundaries from the raw parse
        raw_frames, _ = wire.split_frames(data[len(wire.PREFACE):] if data.startswith(wire.PREFACE) else data)
        pre = wire.PREFACE if data.startswith(wire.PREFACE) else b''
        chunks = []
        cur = b''
        open_block = False
        for typ, fl, sid, payload in raw_frames:
            b = wire.raw_frame(typ, fl, sid, payload)
            if open_block:
                cur += b
                if typ == wire.T_CONT and (fl & wire.F_END_HEADERS):
                    chunks.append(cur)
                    cur, open_block = b'', False
                continue
            if typ in (wire.T_HEADERS, wire.T_PUSH) and not (fl & wire.F_END_HEADERS):
                cur, open_block = b, True
                continue
            chunks.append(b)
        if cur:
            chunks.append(cur)
        if pre:
            if chunks:
                chunks[0] = pre + chunks[0]
            else:
                chunks.append(pre)
        self.chan[to].extend(chunks)

    def step(self, s):
        a = s['a']
        x = s['x']
        ep = self.eps[x]
        if a == 'call':
            try:
                ret = ep.call(s['c'])
                res = absn.exc_rec(None)
                if s['c']['op'] in ('oin', 'oout', 'next'):
                    res['v'] = ret
            except BaseException as e:
                res = absn.exc_rec(e)
                if s['c']['op'] in ('oin', 'oout', 'next'):
                    res['v'] = -1
            if s['c']['op'] == 'upg' and self.pair and ep.upgrade_header is not None:
                self.eps[self.other(x)].peer_upgrade_header = ep.upgrade_header
            return self._finish(x, res, [])
        if a == 'recv':
            data = b''
            if x == 's' and not ep.adv_preface_sent and not s.get('nopre'):
                data += wire.PREFACE
                ep.adv_preface_sent = True
            for f in s['fs']:
                data += ep.adv.frame(f)
            return self._receive(x, data)
        if a == 'dlv':
            k = s['k']
            data = b''.join(self.chan[x][:k])
            del self.chan[x][:k]
            return self._receive(x, data)
        raise ValueError('unknown step kind ' + a)

    def _receive(self, x, data):
        ep = self.eps[x]
        try:
            evs = ep.conn.receive_data(data)
            res = absn.exc_rec(None)
            aevs = absn.events(evs)
        except BaseException as e:
            res = absn.exc_rec(e)
            aevs = []
        return self._finish(x, res, aevs)


def diff(pred, obs, path=''):
    """Names of the top-level observation fields (r, o, e, q.*) that differ."""
    out = []
    for k in ('r', 'o', 'e'):
        if k in pred and pred[k] != obs.get(k):
            out.append(k)
    if 'q' in pred:
        for k, v in pred['q'].items():
            if obs.get('q', {}).get(k) != v:
                out.append('q.' + k)
    return out
