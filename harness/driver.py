"""Executes abstract steps on real h2.connection.H2Connection objects taken from
/repo's working tree and records what the public API shows, in the JSON shapes
the TLA+ specification predicts.  Contains no protocol rules.
"""
import os
import sys

REPO_SRC = os.environ.get('H2_REPO_SRC', '/repo/src')
if REPO_SRC not in sys.path:
    sys.path.insert(0, REPO_SRC)

from . import absn, wire  # noqa: E402


def _h2():
    import h2.connection
    import h2.config
    import h2.exceptions
    return h2


def opt(seq):
    """TLA+ optional <<>> / <<v>> -> None / v"""
    return None if not seq else seq[0]


class Endpoint:
    def __init__(self, role, cfg, max_closed=None):
        h2 = _h2()
        kw = dict(client_side=(role == 'c'))
        if cfg:
            if cfg.get('enc'):
                kw['header_encoding'] = 'utf-8'
            for k_json, k_py in (('vi', 'validate_inbound_headers'), ('ni', 'normalize_inbound_headers'),
                                 ('vo', 'validate_outbound_headers'), ('no', 'normalize_outbound_headers')):
                if k_json in cfg:
                    kw[k_py] = bool(cfg[k_json])
        klass = h2.connection.H2Connection
        if max_closed is not None:
            klass = type('BoundedH2Connection', (klass,), {'MAX_CLOSED_STREAMS': max_closed})
        self.role = role
        self.conn = klass(config=h2.config.H2Configuration(**kw))
        self.obs = absn.Observer(expect_preface=(role == 'c'))
        self.adv = absn.Adversary()       # the peer's encoder when the peer is the harness
        self.adv_preface_sent = False
        self.hts_pending = []
        self.noted_sets = 0       # SETTINGS frames still in the connection's buffer whose HEADER_TABLE_SIZE is already in hts_pending
        self.upgrade_header = None

    # -------------------------------------------------- public calls
    def call(self, c):
        conn = self.conn
        op = c['op']
        if op == 'init':
            return conn.initiate_connection()
        if op == 'upg':
            import base64
            src = c.get('src', 'none')
            hdr = None
            if src == 'peer':
                hdr = getattr(self, 'peer_upgrade_header', None)
            elif src == 'lit':
                body = b''.join(wire.struct.pack('>HI', i & 0xFFFF, absn.u32(v)) for i, v in c.get('s', []))
                hdr = base64.urlsafe_b64encode(body)
            r = conn.initiate_upgrade_connection(hdr)
            self.upgrade_header = r
            if r is None:
                return []
            raw = base64.urlsafe_b64decode(r)
            return [[int.from_bytes(raw[i:i + 2], 'big'), absn.i32(int.from_bytes(raw[i + 2:i + 6], 'big'))] for i in range(0, len(raw), 6)]
        if op == 'hdr':
            kw = {}
            pr = c.get('pr', [])
            if pr:
                w, dep, excl = pr
                kw = dict(priority_weight=opt(w), priority_depends_on=opt(dep), priority_exclusive=opt(excl))
            return conn.send_headers(absn.u32(c['sid']), [absn.untok(t) for t in c['h']], end_stream=c['es'], **kw)
        if op == 'data':
            pad = c.get('pad', -1)
            return conn.send_data(absn.u32(c['sid']), absn.payload(c.get('tag', 'A'), c['n']), end_stream=c['es'],
                                  pad_length=None if pad < 0 else pad)
        if op == 'end':
            return conn.end_stream(absn.u32(c['sid']))
        if op == 'inc':
            return conn.increment_flow_control_window(c['n'], stream_id=opt(c['sid']))
        if op == 'push':
            return conn.push_stream(absn.u32(c['sid']), absn.u32(c['pid']), [absn.untok(t) for t in c['h']])
        if op == 'ping':
            return conn.ping(absn.opaque(c['tag'], c.get('n', 8)))
        if op == 'rst':
            return conn.reset_stream(absn.u32(c['sid']), error_code=absn.u32(c.get('code', 0)))
        if op == 'close':
            tag = opt(c.get('tag', []))
            return conn.close_connection(error_code=absn.u32(c.get('code', 0)),
                                         additional_data=None if tag is None else absn.opaque(tag),
                                         last_stream_id=opt(c.get('last', [])))
        if op == 'set':
            import collections
            d = collections.OrderedDict()
            for i, v in c['s']:
                d[i] = absn.u32(v)
            return conn.update_settings(d)
        if op == 'alt':
            org = opt(c.get('org', []))
            return conn.advertise_alternative_service(absn.text(c['fld']),
                                                      origin=None if org is None else absn.text(org),
                                                      stream_id=opt(c.get('sid', [])))
        if op == 'prio':
            return conn.prioritize(absn.u32(c['sid']), weight=opt(c.get('w', [])), depends_on=opt(c.get('dep', [])),
                                   exclusive=opt(c.get('excl', [])))
        if op == 'ack':
            return conn.acknowledge_received_data(c['n'], absn.u32(c['sid']))
        if op == 'oin':
            return conn.open_inbound_streams
        if op == 'oout':
            return conn.open_outbound_streams
        if op == 'next':
            return conn.get_next_available_stream_id()
        if op == 'clear':
            return conn.clear_outbound_data_buffer()
        raise ValueError('unknown op ' + op)

    out_rng = None       # C21: when set (chunked replays), the output is taken with data_to_send(amount) in random amounts

    def _held_sets(self):
        buf = bytes(getattr(self.conn, '_data_to_send', b''))
        if buf.startswith(wire.PREFACE):
            buf = buf[len(wire.PREFACE):]
        return [f for f in wire.split_frames(buf)[0] if f[0] == 4 and not (f[1] & 1)]

    def take_output(self):
        if self.noted_sets:
            # (a noted frame may have been discarded meanwhile: a received GOAWAY or clear_outbound_data_buffer empties the buffer)
            self.noted_sets = min(self.noted_sets, len(self._held_sets()))
        if self.out_rng is None:
            data = self.conn.data_to_send()
        else:
            # any sequence of data_to_send(amount) calls must yield a partition of what one data_to_send() returns
            data = b''
            for _ in range(10000):
                amount = self.out_rng.choice([1, 2, 3, 8, 9, 10, 17, 100, 16384, 16393])
                left = len(getattr(self.conn, '_data_to_send', b''))
                if left and self.out_rng.random() < 0.35:          # the boundary: exactly what is buffered, one less, one more
                    amount = max(1, left + self.out_rng.choice([0, 0, -1, 1]))
                piece = self.conn.data_to_send(amount)
                if len(piece) > amount:
                    data += b'<data_to_send returned more than asked for>'
                data += piece
                if not piece:
                    break
            data += self.conn.data_to_send()
        frames = self.obs.feed(data)
        # the harness peer is a conforming HTTP/2 peer: it remembers the HEADER_TABLE_SIZE carried by each SETTINGS
        # frame it sees and starts using it when it acknowledges THAT frame (RFC 7540 6.5.3, RFC 7541 4.2)
        for f in frames:
            if f.get('t') == 'SET' and not f.get('ack'):
                if self.noted_sets > 0:            # noted when the step that wrote it left it in the buffer
                    self.noted_sets -= 1
                    continue
                v = [val for i, val in f['s'] if i == 1]
                self.hts_pending.append(absn.u32(v[-1]) if v else None)
        self.noted_sets = 0
        return data, frames

    def note_held(self):
        """A step left its output in the buffer (nf).  The harness peer acknowledges SETTINGS frames in the order the
        connection wrote them (the specification's peer does: H2!Dispatch), so the HEADER_TABLE_SIZE of a SETTINGS frame that
        is still waiting in the buffer is noted now, by looking at the buffer without taking anything."""
        sets = self._held_sets()
        self.noted_sets = min(self.noted_sets, len(sets))
        for typ, fl, sid, payload in sets[self.noted_sets:]:
            v = [int.from_bytes(payload[k + 2:k + 6], 'big') for k in range(0, len(payload) - len(payload) % 6, 6)
                 if int.from_bytes(payload[k:k + 2], 'big') == 1]
            self.hts_pending.append(v[-1] if v else None)
        self.noted_sets = len(sets)

    def adversary_frame(self, f):
        is_ack = (f.get('t') == 'SET' and f.get('ack')) or (f.get('t') == 'RAW' and f.get('typ') == 4 and f.get('fl', 0) & 1 and f.get('len') == 0)
        if is_ack and self.hts_pending:
            v = self.hts_pending.pop(0)
            if v is not None:
                self.adv.enc.header_table_size = v
        return self.adv.frame(f)

    def queries(self, qsids):
        return queries_of(self.conn, qsids)

    def zstate(self):
        return zstate_of(self.conn)


def queries_of(conn, qsids):
    if True:
        q = {}
        lw, rw = [], []
        for sid in qsids:
            for fn, acc in ((conn.local_flow_control_window, lw), (conn.remote_flow_control_window, rw)):
                try:
                    acc.append(absn.i32(fn(sid)))
                except BaseException as e:
                    acc.append(absn.exc_rec(e)['c'])
        q['lw'] = lw
        q['rw'] = rw
        try:
            q['nx'] = conn.get_next_available_stream_id()
        except BaseException as e:
            q['nx'] = -1
        q['mof'] = conn.max_outbound_frame_size
        q['mif'] = conn.max_inbound_frame_size
        return q

def zstate_of(conn):
    if True:
        """Read-only projection of the connection's internal state in the shape of the model's Z(ep).
        Every component is read defensively: a component that cannot be read (renamed attribute after a
        refactoring) is reported as the string 'unreadable' and is then not compared."""
        BY = {'SEND_END_STREAM': 'SES', 'RECV_END_STREAM': 'RES', 'SEND_RST_STREAM': 'SRST', 'RECV_RST_STREAM': 'RRST'}

        def tri(v):
            return 'N' if v is None else ('T' if v else 'F')

        def by(v):
            return 'N' if v is None else BY.get(v.name, v.name)

        def wm(m):
            return [absn.i32(m.current_window_size), absn.i32(m.max_window_size), absn.i32(m._bytes_processed)]

        def txt(v):
            if v is None:
                return 'None'
            return absn.printable(v.decode('latin-1') if isinstance(v, bytes) else v)

        def settings(S):
            out = []
            for k, dq in S._settings.items():
                vals = list(dq)
                hn = vals[0] is None
                out.append([int(k), [absn.i32(v) for v in (vals[1:] if hn else vals)], hn])
            return out

        z = {}

        def put(key, fn):
            try:
                z[key] = fn()
            except Exception:
                z[key] = 'unreadable'

        put('conn', lambda: conn.state_machine.state.name)
        put('hiIn', lambda: absn.i32(conn.highest_inbound_stream_id))
        put('hiOut', lambda: absn.i32(conn.highest_outbound_stream_id))
        put('ow', lambda: absn.i32(conn.outbound_flow_control_window))
        put('iw', lambda: wm(conn._inbound_flow_control_window_manager))

        def streams():
            out = []
            for sid, s in conn.streams.items():
                sm = s.state_machine
                ecl = s._expected_content_length
                out.append({'sid': absn.i32(sid), 'mof': absn.i32(s.max_outbound_frame_size), 'st': sm.state.name, 'cl': tri(sm.client), 'hs': tri(sm.headers_sent),
                            'ts': tri(sm.trailers_sent), 'hr': tri(sm.headers_received),
                            'tr': tri(sm.trailers_received), 'by': by(sm.stream_closed_by),
                            'ow': absn.i32(s.outbound_flow_control_window), 'iw': wm(s._inbound_window_manager),
                            'ecl': [] if ecl is None else [max(min(ecl, 2 ** 31 - 1), -(2 ** 31 - 1))],
                            'acl': s._actual_content_length, 'meth': txt(s.request_method), 'auth': txt(s._authority)})
            return out
        put('streams', streams)
        put('closed', lambda: [[absn.i32(sid), by(v)] for sid, v in conn._closed_streams.items()])
        put('ls', lambda: settings(conn.local_settings))
        put('rs', lambda: settings(conn.remote_settings))
        put('hdrCap', lambda: absn.i32(conn.decoder.max_header_list_size))
        put('hp', lambda: [absn.i32(conn.encoder.header_table_size), bool(conn.encoder.header_table.resized),
                           [absn.i32(v) for v in conn.encoder.table_size_changes], absn.i32(conn.decoder.header_table_size),
                           absn.i32(conn.decoder.max_allowed_table_size)])
        put('pend', lambda: count_logical_frames(bytes(conn.incoming_buffer.data)))
        put('hb', lambda: len(conn.incoming_buffer._headers_buffer))
        return z


def count_logical_frames(buf):
    """Complete frames in an input buffer, a header block (HEADERS/PUSH_PROMISE + its CONTINUATIONs) counted once; a client
    preface found where a frame header is expected counts as one (the parser reads it as the header of a huge frame)."""
    n = 0
    open_block = False
    i = 0
    while len(buf) - i >= 9:
        if buf[i:i + len(wire.PREFACE)] == wire.PREFACE:
            n += 1
            i += len(wire.PREFACE)
            continue
        length = int.from_bytes(buf[i:i + 3], 'big')
        if len(buf) - i - 9 < length:
            break
        typ, fl = buf[i + 3], buf[i + 4]
        i += 9 + length
        if open_block and typ == wire.T_CONT:
            open_block = not (fl & wire.F_END_HEADERS)
            continue
        n += 1
        open_block = typ in (wire.T_HEADERS, wire.T_PUSH) and not (fl & wire.F_END_HEADERS)
    return n


def strip_private(frames):
    out = []
    for f in frames:
        g = {k: v for k, v in f.items() if not k.startswith('_')}
        out.append(g)
    return out


def mask_addresses(text):
    """The one known process-dependent part of an exception text: the repr of a memoryview the hpack library puts into its
    message (finding decode_error_text_embeds_address).  Nothing else is masked."""
    import re
    return re.sub(r'<memory at 0x[0-9a-fA-F]+>', '<memory at ADDR>', text)


class Session:
    """One behaviour: one endpoint with a harness-driven peer, or a client/server pair."""

    def __init__(self, meta):
        self.meta = meta
        self.qsids = meta.get('qsids', [])
        self.eps = {}
        for role in meta['roles']:
            self.eps[role] = Endpoint(role, meta.get('cfg', {}).get(role, {}), meta.get('max_closed'))
        self.pair = len(self.eps) == 2
        # pair mode: bytes in flight towards each side, one entry per logical frame
        self.chan = {r: [] for r in self.eps}
        self.last_raw = {}
        self.text = ('', '')
        # C21: when the behaviour's meta carries chunk_seed, every receive_data() input is fed in random pieces
        self.chunk_rng = None
        if meta.get('chunk_seed') is not None:
            import random
            self.chunk_rng = random.Random(meta['chunk_seed'])
            for ep in self.eps.values():
                ep.out_rng = random.Random(meta['chunk_seed'] + 17)
        # C28: digest of every byte the endpoints emitted, in order
        import hashlib
        self.digest = hashlib.sha256()
        self.digest_masked = hashlib.sha256()      # the same with object addresses in exception texts masked (finding decode_error_text_embeds_address)

    def other(self, x):
        return 's' if x == 'c' else 'c'

    want_sizes = False

    def _finish(self, x, res, evs, with_q=True, nf=False):
        ep = self.eps[x]
        try:
            # nf: the application does not take the output after this step; it stays in the connection's buffer
            data, frames = (b'', []) if nf else ep.take_output()
            if nf:
                ep.note_held()
        except BaseException as e:   # harness-side failure is reported as an observation
            data, frames = b'', [{'t': 'HARNESS-ERROR', 'why': repr(e)}]
        if self.pair:
            self._enqueue(self.other(x), data, frames, ep)
        self.last_raw[x] = (data, ep.obs.raw)
        self.digest.update(x.encode() + len(data).to_bytes(4, 'big') + data)
        self.digest_masked.update(x.encode() + len(data).to_bytes(4, 'big') + data)
        if self.want_sizes:
            for f in frames:
                if '_sizes' in f:
                    f['sizes'] = f['_sizes']
        self.last_block_lens = [f['_bl'] for f in frames if '_bl' in f]
        o = {'r': res, 'o': strip_private(self._public(frames)), 'e': evs}
        # C28: the text of the exception and of the events as the application would print them (not predicted by the model:
        # compared between two interpreters with different hash seeds only)
        import hashlib as _h
        o['x'] = {'exc': self.text[0], 'ev': _h.sha1(self.text[1].encode('utf-8', 'replace')).hexdigest()[:12] if self.text[1] else ''}
        self.digest.update(self.text[0].encode('utf-8', 'replace') + self.text[1].encode('utf-8', 'replace'))
        self.digest_masked.update(mask_addresses(self.text[0]).encode('utf-8', 'replace') + self.text[1].encode('utf-8', 'replace'))
        if with_q:
            o['q'] = ep.queries(self.qsids)
            o['z'] = ep.zstate()
        return o

    @staticmethod
    def _public(frames):
        out = []
        for f in frames:
            g = dict(f)
            g.pop('pre', None)
            if g['t'] in ('HEADERS', 'PP'):
                g.pop('pad', None)
            out.append(g)
        return out

    def _enqueue(self, to, data, frames, ep):
        # split the raw bytes per logical frame: re-serialise boundaries from the raw parse
        raw_frames, _ = wire.split_frames(data[len(wire.PREFACE):] if data.startswith(wire.PREFACE) else data)
        pre = wire.PREFACE if data.startswith(wire.PREFACE) else b''
        chunks = []
        cur = b''
        open_block = False
        for typ, fl, sid, payload in raw_frames:
            b = wire.raw_frame(typ, fl, sid, payload)
            if open_block:
                cur += b
                if typ == wire.T_CONT and (fl & wire.F_END_HEADERS):
                    chunks.append(cur)
                    cur, open_block = b'', False
                continue
            if typ in (wire.T_HEADERS, wire.T_PUSH) and not (fl & wire.F_END_HEADERS):
                cur, open_block = b, True
                continue
            chunks.append(b)
        if cur:
            chunks.append(cur)
        if pre:
            if chunks:
                chunks[0] = pre + chunks[0]
            else:
                chunks.append(pre)
        self.chan[to].extend(chunks)

    def step(self, s):
        a = s['a']
        x = s['x']
        ep = self.eps[x]
        self.want_sizes = a == 'call' and bool(s['c'].get('sz'))
        self.text = ('', '')
        if a == 'call':
            try:
                ret = ep.call(s['c'])
                res = absn.exc_rec(None)
                if s['c']['op'] in ('oin', 'oout', 'next', 'upg'):
                    res['v'] = ret
            except BaseException as e:
                res = absn.exc_rec(e)
                self.text = (str(e), '')
                if s['c']['op'] in ('oin', 'oout', 'next'):
                    res['v'] = -1
            if s['c']['op'] == 'upg' and self.pair and ep.upgrade_header is not None:
                self.eps[self.other(x)].peer_upgrade_header = ep.upgrade_header
            return self._finish(x, res, [], nf=bool(s.get('nf')))
        if a == 'recv':
            data = b''
            if x == 's' and not ep.adv_preface_sent and not s.get('nopre'):
                data += wire.PREFACE
                ep.adv_preface_sent = True
            for f in s['fs']:
                data += ep.adversary_frame(f)
            return self._receive(x, data, nf=bool(s.get('nf')))
        if a == 'dlv':
            k = s['k']
            data = b''.join(self.chan[x][:k])
            del self.chan[x][:k]
            return self._receive(x, data, nf=bool(s.get('nf')))
        raise ValueError('unknown step kind ' + a)

    def _receive(self, x, data, nf=False):
        ep = self.eps[x]
        try:
            evs = []
            for piece in self._pieces(data):
                evs += ep.conn.receive_data(piece)
            res = absn.exc_rec(None)
            aevs = absn.events(evs)
            try:
                self.text = ('', repr(evs))
            except Exception as e:            # an event whose repr raises (outside the listed properties)
                self.text = ('', 'repr raised %s' % type(e).__name__)
        except BaseException as e:
            res = absn.exc_rec(e)
            aevs = []
            self.text = (str(e), '')
        return self._finish(x, res, aevs, nf=nf)

    def _pieces(self, data):
        """The whole input at once, or (chunked replay) a random partition of it: byte by byte, or cut at up to
        four random offsets (cuts fall inside the preface, frame headers and payloads alike)."""
        rng = self.chunk_rng
        if rng is None or len(data) < 2:
            return [data]
        if rng.random() < 0.25:
            if len(data) <= 600:
                return [data[i:i + 1] for i in range(len(data))]
            # a long input: octet by octet across the first frame headers, the rest in two pieces
            k = rng.randrange(300, len(data))
            return [data[i:i + 1] for i in range(300)] + [data[300:k], data[k:]]
        cuts = sorted({rng.randrange(1, len(data)) for _ in range(rng.randrange(1, 5))})
        out, prev = [], 0
        for c in cuts + [len(data)]:
            out.append(data[prev:c])
            prev = c
        return out


def diff(pred, obs, path=''):
    """Names of the top-level observation fields (r, o, e, q.*) that differ."""
    out = []
    for k in ('r', 'o', 'e'):
        if k in pred and pred[k] != obs.get(k):
            out.append(k)
    if 'q' in pred:
        for k, v in pred['q'].items():
            if obs.get('q', {}).get(k) != v:
                out.append('q.' + k)
    if 'z' in pred and 'z' in obs:
        for k, v in pred['z'].items():
            got = obs['z'].get(k, 'unreadable')
            if got != 'unreadable' and got != v:
                if k == 'streams' and isinstance(got, list) and [s.get('sid') for s in got] == [s.get('sid') for s in v]:
                    # same streams in the table: name the attributes that differ (the lenses of the properties use them)
                    attrs = sorted({a for sp, so in zip(v, got) for a in sp if sp[a] != so.get(a)})
                    out.extend('z.streams.' + a for a in attrs)
                else:
                    out.append('z.' + k)
    return out
