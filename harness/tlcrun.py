"""Runs TLC on a scenario module and collects what it printed: the META record,
the witness behaviours (TR lines), statistics, and any property violation."""
import glob
import json
import os
import re
import shutil
import subprocess
import time

SPEC_DIR = os.path.join(os.path.dirname(os.path.abspath(__file__)), '..', 'spec')
TLC_JAR = '/opt/veriftools/tla/tla2tools.jar'
CM_JAR = None


def _classpath():
    # the `tlc` wrapper knows where CommunityModules live; reuse its classpath if we can find it
    for cand in ('/opt/veriftools/tla/CommunityModules-deps.jar', '/opt/veriftools/tla/CommunityModules.jar'):
        if os.path.exists(cand):
            return TLC_JAR + ':' + cand
    return TLC_JAR


def prepare(workdir, module, cfg_text):
    os.makedirs(workdir, exist_ok=True)
    for f in glob.glob(os.path.join(SPEC_DIR, '*.tla')) + glob.glob(os.path.join(SPEC_DIR, 'mc', '*.tla')):
        shutil.copy(f, workdir)
    with open(os.path.join(workdir, module + '.cfg'), 'w') as fh:
        fh.write(cfg_text)


def unquote(tla_string_literal):
    return json.loads(tla_string_literal)


LINE_RE = re.compile(r'^<<"(TR|META|CASE|VERDICT)", (".*")>>$')
CASES_RE = re.compile(r'^"CASES (\[[0-9, ]*\])"$')


def case_names():
    """Names of the non-vacuity cases, in the order of the Cases block of spec/Scn.tla (register 200+i <-> i-th name)."""
    text = open(os.path.join(SPEC_DIR, 'Scn.tla')).read()
    blk = text[text.index('\nCases == <<'):text.index('\nNCases ==')]
    return re.findall(r'^  <<"([^"]+)", ', blk, re.M)


def cases_of(counts):
    names = case_names()
    return {n: int(counts[i]) for i, n in enumerate(names) if i < len(counts)}

STATS_RE = re.compile(r'^(\d+) states generated, (\d+) distinct states found')


def run(module, cfg_text, workdir, workers=1, simulate=None, timeout=3600, heap='4g', on_trace=None, depth_first=False):
    """Returns dict(meta, traces (unless on_trace), generated, distinct, violation, error, wall_s, cmd)."""
    prepare(workdir, module, cfg_text)
    cmd = ['tlc', '-workers', str(workers), '-metadir', os.path.join(workdir, 'states'), '-noGenerateSpecTE']
    if simulate:
        cmd += ['-simulate', simulate['spec']]
        if 'depth' in simulate:
            cmd += ['-depth', str(simulate['depth'])]
        if 'seed' in simulate:
            cmd += ['-seed', str(simulate['seed'])]
    cmd += [module + '.tla']
    env = dict(os.environ)
    opts = '-Xmx%s -Xss64m' % heap
    env['JAVA_TOOL_OPTIONS'] = (env.get('JAVA_TOOL_OPTIONS', '') + ' ' + opts).strip()
    t0 = time.time()
    proc = subprocess.Popen(cmd, cwd=workdir, stdout=subprocess.PIPE, stderr=subprocess.STDOUT, env=env,
                            text=True, errors='replace')
    res = {'meta': None, 'traces': [], 'generated': 0, 'distinct': 0, 'violation': None, 'error': None,
           'cmd': ' '.join(cmd), 'other': [], 'cases': {}}
    err_lines = []
    in_error = False
    try:
        for line in proc.stdout:
            line = line.rstrip('\n')
            mc = CASES_RE.match(line)
            if mc:
                res['cases'] = cases_of(json.loads(mc.group(1)))
                continue
            m = LINE_RE.match(line)
            if m:
                kind, payload = m.group(1), json.loads(unquote(m.group(2)))
                if kind == 'META':
                    res['meta'] = payload
                elif kind == 'TR':
                    if on_trace:
                        on_trace(payload)
                    else:
                        res['traces'].append(payload)
                else:
                    res['other'].append((kind, payload))
                continue
            m = STATS_RE.match(line)
            if m:
                res['generated'], res['distinct'] = int(m.group(1)), int(m.group(2))
                continue
            if line.startswith('Error:') or in_error:
                in_error = True
                if len(err_lines) < 200:
                    err_lines.append(line[:2000])
            if 'is violated' in line and 'Invariant' in line or 'Action property' in line and 'violated' in line:
                res['violation'] = line.strip()
            if time.time() - t0 > timeout:
                proc.kill()
                res['error'] = 'timeout'
                break
        proc.wait()
    finally:
        if proc.poll() is None:
            proc.kill()
    res['wall_s'] = time.time() - t0
    res['exit'] = proc.returncode
    if err_lines and not res['violation']:
        res['error'] = '\n'.join(err_lines[:60])
    elif err_lines:
        res['violation_detail'] = '\n'.join(err_lines[:120])
    shutil.rmtree(os.path.join(workdir, 'states'), ignore_errors=True)
    return res
