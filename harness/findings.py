"""Known findings: read-only list committed in /verif/known_findings.json.

Each entry: {id, property, deviation, what, program: {meta, steps}, at: step index (1-based, within steps),
             asbuilt: observation fields recorded on the pinned tree, strict: what the property demands}.
reexecute() runs the program on the current tree:
  'still'     -> the code still fails exactly as recorded           (KNOWN-FINDING line)
  'fixed'     -> the code now shows the strict observation          (nothing printed)
  'different' -> neither: a different failure at the same site      (VIOLATION)
"""
import json
import os

from . import driver, replay

PATH = os.path.join(os.path.dirname(os.path.abspath(__file__)), '..', 'known_findings.json')


def load():
    if not os.path.exists(PATH):
        return {'findings': [], 'fixed': []}
    return json.load(open(PATH))


def for_property(pid):
    return [f for f in load().get('findings', []) if pid in f['properties']]


def _sub(obs, fields):
    return {k: obs.get(k) for k in fields}


def reexecute(kf, catalogue):
    prog = kf['program']
    try:
        sess = driver.Session(prog['meta'])
        obs = None
        for s in prog['meta'].get('setup', []):
            sess.step(replay.resolve(s, catalogue))
        for i, s in enumerate(prog['steps'], 1):
            obs = sess.step(replay.resolve(s, catalogue))
            if i == kf['at']:
                break
    except Exception as e:
        return 'harness', repr(e)
    fields = list(kf['asbuilt'].keys())
    got = _sub(obs, fields)
    if got == kf['asbuilt']:
        return 'still', got
    if 'strict' in kf and got == kf['strict']:
        return 'fixed', got
    return 'different', {'expected_asbuilt': kf['asbuilt'], 'strict': kf.get('strict'), 'observed': got}
