"""Known findings: read-only list committed in /verif/known_findings.json (never written at run time).

Each entry: {id, properties, deviation, what, program: {meta, steps}, at: step index (1-based, within steps),
             asbuilt: the observation {r, o, e, q, z} recorded on the pinned tree at that step,
             strict (optional): the part of the observation the property demands instead}.
reexecute() runs the program on the current tree and compares the observation at step `at`:
  'still'   -> the code still fails exactly as recorded                    (KNOWN-FINDING line)
  'fixed'   -> the code now shows the strict observation                   (nothing printed)
  'changed' -> neither: the recorded failure is gone or looks different    (NOTE line; the scenario models decide)
"""
import json
import os

from . import driver, replay

PATH = os.path.join(os.path.dirname(os.path.abspath(__file__)), '..', 'known_findings.json')

# deviation branch of spec/H2.tla (Mark) -> the properties it contradicts, and what fails
DEVIATIONS = {
    'misuse_closes_stream': (['C06', 'C01'],
                             'a send that is invalid in the current stream state raises ProtocolError AND moves the live stream '
                             'to CLOSED, so later sends the RFC state permits are refused'),
    'misuse_closes_connection': (['C19', 'C01'],
                                 'a call that is invalid in the current connection state raises ProtocolError AND closes the '
                                 'connection state machine although no GOAWAY was sent or received'),
    'data_before_headers': (['C08'], 'a server can emit DATA / END_STREAM on a request stream before any response HEADERS'),
    'failed_send_partial_state': (['C13', 'C01'],
                                  'a send_headers/push_stream call that raises late (validation, trailers without END_STREAM, '
                                  'priority) leaves the stream state machine and/or the HPACK encoder advanced'),
    'client_accepts_request': (['C07', 'C06'],
                               'a client accepts request HEADERS from the server on a never-promised even stream id and reports '
                               'RequestReceived'),
    'refused_push_forgotten': (['C20'],
                               'a PUSH_PROMISE on a locally reset stream is refused with RST_STREAM but the promised id is not '
                               'remembered: later frames on the promised stream are connection errors'),
    'hpack_error_code': (['C18'], 'an undecodable header block is answered with GOAWAY(PROTOCOL_ERROR) instead of COMPRESSION_ERROR'),
    'ack_data_when_closed': (['C19'], 'acknowledge_received_data emits WINDOW_UPDATE frames on a closed connection'),
    'rst_on_closed_connection': (['C19'],
                                 'a naked CONTINUATION frame for a locally reset stream, received after the connection was closed, '
                                 'makes the library emit RST_STREAM(STREAM_CLOSED) on the closed connection (found by TLC: '
                                 'P_C19_ClosedStaysQuiet on MC_CloseS)'),
    'client_advertises_idle': (['C24', 'C08'], 'a client whose connection is still idle can emit an ALTSVC frame'),
    'server_opens_stream': (['C08', 'C09'], 'a server can open a new stream with send_headers (response HEADERS on an unused even id)'),
    'ack_per_key': (['C11'],
                    'a SETTINGS ACK applies one pending value of EVERY key instead of the changes of the one frame it answers '
                    '(ACK of the initial frame applies a later update_settings)'),
    'settings_ack_length_code': (['C18'],
                                 'a SETTINGS frame with the ACK flag and a non-empty payload is answered with GOAWAY(PROTOCOL_ERROR); '
                                 'RFC 7540 section 6.5 makes it a FRAME_SIZE_ERROR (found by TLC: P_C18_SizeViolationsAreFrameSizeErrors '
                                 'on MC_RawS)'),
    'stream_id_above_max': (['C09', 'C02'],
                            'send_headers / push_stream accept a stream id of 2^31 or more (send_headers(2**31+1, ...) on a client): the '
                            'id is recorded as the highest outbound id and the frame goes out with only its low 31 bits (stream 1)'),
    'content_length_rule_differs': (['C16'],
                                    'the content-length check is not the RFC 7540 8.1.2.6 rule in several cases: a 204/304 response (or a '
                                    'response to a HEAD request whose method was forgotten because the client sent trailers) that declares a '
                                    'content-length and ends with an empty DATA frame is refused; a 204/304 response carrying as much payload '
                                    'as it declares is accepted; the content-length of a 1xx block is applied to the final response; a message '
                                    'that declares a length and ends with END_STREAM on a header block without reaching it is accepted'),
    'settings_shrink_stalls_window': (['C05'],
                                      'a local INITIAL_WINDOW_SIZE decrease, acknowledged by the peer after the application has '
                                      'acknowledged received DATA that was not yet credited back, takes the stream window to zero with '
                                      'the acknowledged octets still uncredited: no WINDOW_UPDATE is ever emitted, the peer can send '
                                      'nothing, the stream is deadlocked although every received octet was acknowledged and the maximum is '
                                      'positive (found by TLC: P_C05_NoStall on MC_StallS, 4 steps; confirmed on the code with 1000 octets)'),
    'header_frame_exceeds_limit': (['C02', 'C29'],
                                   'the encoded header block is cut into slices of the peer MAX_FRAME_SIZE before the priority fields '
                                   '(send_headers with priority arguments, 5 octets) or the promised stream id (push_stream, 4 octets) '
                                   'are put in front of the first slice: with a block of MAX_FRAME_SIZE-4 octets or more the HEADERS / '
                                   'PUSH_PROMISE frame exceeds the limit; the call then raises AssertionError after the oversized frame '
                                   'has been written to the output buffer'),
    'sends_before_preamble': (['C01', 'C02'],
                              'every frame-producing call (update_settings, send_headers, ping, ...) succeeds on a connection on which '
                              'initiate_connection has not been called yet and writes its frame in front of the connection preamble: '
                              'the peer refuses the byte stream (found by trace validation: P_C01_DeliveredSendsAccepted on a recorded '
                              'client/server trace that changes a setting before upgrading)'),
    'second_initiate_emits_preamble': (['C02', 'C29'],
                                       'initiate_connection (or initiate_upgrade_connection) on a connection that is already '
                                       'initiated succeeds and writes the client preface and the complete SETTINGS frame a second time '
                                       'into the output (a byte stream no HTTP/2 peer accepts)'),
    'upgrade_raises_after_preamble': (['C29'],
                                      'initiate_upgrade_connection writes the connection preamble (preface, SETTINGS) into the output '
                                      'buffer before the steps that can fail (an invalid value in the HTTP2-Settings payload, a second '
                                      'call, a call on a connection in the wrong state): the call raises and has added bytes'),
    'frame_size_limit_snapshot': (['C21', 'C01'],
                                  'the inbound frame-size limit is copied once per receive_data() call: a DATA frame that follows, in '
                                  'the same call, the SETTINGS ACK that raised MAX_FRAME_SIZE is refused with FRAME_SIZE_ERROR '
                                  'although it is within the limit now in force (delivered in two calls it is accepted); found by '
                                  'trace validation of recorded client/server traces'),
    'hpack_size_update_dropped': (['C13', 'C01'],
                                  'after the peer announced HEADER_TABLE_SIZE = a and then a value equal to the one in use, the '
                                  'HPACK encoder never signals the change (its "resized" flag is cleared by the second assignment): '
                                  'a peer that lowered its table size then refuses the next header block ("Encoder did not shrink '
                                  'table size")'),
    'hpack_size_update_intermediate': (['C13', 'C01'],
                                       'after several HEADER_TABLE_SIZE changes between two header blocks the HPACK encoder signals '
                                       'every intermediate size instead of the smallest and the last (RFC 7541 4.2): a size above the '
                                       'value the peer has meanwhile acknowledged makes the peer refuse the block'),
    'push_bypasses_stream_limit': (['C10'],
                                   'a pushed stream is opened (response HEADERS sent on a reserved-local stream, or received on a '
                                   'reserved-remote one) without any check against MAX_CONCURRENT_STREAMS: more streams are open '
                                   'than the limit allows (found by trace validation: P_C10_OutboundWithinPeerLimit failed on a '
                                   'recorded random trace)'),
    'setting_id_truncated': (['C02', 'C11'],
                             'update_settings with a setting identifier above 255 emits a SETTINGS frame carrying only the low 8 '
                             'bits of the identifier (the hyperframe serialiser masks it): update_settings({0x104: n}) tells the '
                             'peer INITIAL_WINDOW_SIZE = n (found by trace validation of random traces, spec/Trace.tla)'),
    'update_settings_partial': (['C11', 'C12'],
                                'update_settings with a later invalid value raises but keeps the earlier keys of the same call '
                                'enqueued as pending'),
}


def load():
    if not os.path.exists(PATH):
        return {'findings': [], 'fixed': []}
    return json.load(open(PATH))


def for_property(pid):
    return [f for f in load().get('findings', []) if pid in f['properties']]


def run_program(prog, catalogue, at):
    sess = driver.Session(prog['meta'])
    obs = None
    for s in prog['meta'].get('setup', []):
        sess.step(replay.resolve(s, catalogue))
    for i, s in enumerate(prog['steps'], 1):
        obs = sess.step(replay.resolve(s, catalogue))
        if i == at:
            break
    return obs


def reexecute(kf, catalogue):
    try:
        obs = run_program(kf['program'], catalogue, kf['at'])
    except Exception as e:
        return 'harness', repr(e)
    d = driver.diff(kf['asbuilt'], obs)
    if not d and kf.get('text_re'):
        import re
        if not re.search(kf['text_re'], obs.get('x', {}).get('exc', '')):
            return 'changed', ['x.exc']
    if not d:
        return 'still', []
    if 'strict' in kf and not driver.diff(kf['strict'], obs):
        return 'fixed', d
    return 'changed', d
