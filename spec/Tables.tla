---------------------------- MODULE Tables ----------------------------
(* Snapshot of h2.stream._transitions and H2ConnectionStateMachine._transitions of the pinned tree, *)
(* written out by tools/gen_tables.py once and then reviewed against RFC 7540 section 5.1 (DESIGN appendix C). *)
EXTENDS TLC
StreamTable ==
  <<"IDLE", "SEND_HEADERS">> :> [fn |-> "request_sent", to |-> "OPEN"] @@
  <<"IDLE", "SEND_PUSH_PROMISE">> :> [fn |-> "send_new_pushed_stream", to |-> "RESERVED_LOCAL"] @@
  <<"IDLE", "RECV_HEADERS">> :> [fn |-> "request_received", to |-> "OPEN"] @@
  <<"IDLE", "RECV_PUSH_PROMISE">> :> [fn |-> "recv_new_pushed_stream", to |-> "RESERVED_REMOTE"] @@
  <<"IDLE", "RECV_DATA">> :> [fn |-> "reset_stream_on_error", to |-> "CLOSED"] @@
  <<"IDLE", "RECV_ALTERNATIVE_SERVICE">> :> [fn |-> "none", to |-> "IDLE"] @@
  <<"IDLE", "UPGRADE_CLIENT">> :> [fn |-> "request_sent", to |-> "HALF_CLOSED_LOCAL"] @@
  <<"IDLE", "UPGRADE_SERVER">> :> [fn |-> "request_received", to |-> "HALF_CLOSED_REMOTE"] @@
  <<"RESERVED_REMOTE", "SEND_RST_STREAM">> :> [fn |-> "send_reset_stream", to |-> "CLOSED"] @@
  <<"RESERVED_REMOTE", "SEND_WINDOW_UPDATE">> :> [fn |-> "none", to |-> "RESERVED_REMOTE"] @@
  <<"RESERVED_REMOTE", "RECV_HEADERS">> :> [fn |-> "response_received", to |-> "HALF_CLOSED_LOCAL"] @@
  <<"RESERVED_REMOTE", "RECV_RST_STREAM">> :> [fn |-> "stream_reset", to |-> "CLOSED"] @@
  <<"RESERVED_REMOTE", "RECV_DATA">> :> [fn |-> "reset_stream_on_error", to |-> "CLOSED"] @@
  <<"RESERVED_REMOTE", "RECV_WINDOW_UPDATE">> :> [fn |-> "window_updated", to |-> "RESERVED_REMOTE"] @@
  <<"RESERVED_REMOTE", "RECV_ALTERNATIVE_SERVICE">> :> [fn |-> "recv_alt_svc", to |-> "RESERVED_REMOTE"] @@
  <<"RESERVED_LOCAL", "SEND_HEADERS">> :> [fn |-> "response_sent", to |-> "HALF_CLOSED_REMOTE"] @@
  <<"RESERVED_LOCAL", "SEND_RST_STREAM">> :> [fn |-> "send_reset_stream", to |-> "CLOSED"] @@
  <<"RESERVED_LOCAL", "SEND_WINDOW_UPDATE">> :> [fn |-> "none", to |-> "RESERVED_LOCAL"] @@
  <<"RESERVED_LOCAL", "RECV_RST_STREAM">> :> [fn |-> "stream_reset", to |-> "CLOSED"] @@
  <<"RESERVED_LOCAL", "RECV_DATA">> :> [fn |-> "reset_stream_on_error", to |-> "CLOSED"] @@
  <<"RESERVED_LOCAL", "RECV_WINDOW_UPDATE">> :> [fn |-> "window_updated", to |-> "RESERVED_LOCAL"] @@
  <<"RESERVED_LOCAL", "SEND_ALTERNATIVE_SERVICE">> :> [fn |-> "send_alt_svc", to |-> "RESERVED_LOCAL"] @@
  <<"RESERVED_LOCAL", "RECV_ALTERNATIVE_SERVICE">> :> [fn |-> "none", to |-> "RESERVED_LOCAL"] @@
  <<"OPEN", "SEND_HEADERS">> :> [fn |-> "response_sent", to |-> "OPEN"] @@
  <<"OPEN", "SEND_PUSH_PROMISE">> :> [fn |-> "send_push_promise", to |-> "OPEN"] @@
  <<"OPEN", "SEND_RST_STREAM">> :> [fn |-> "send_reset_stream", to |-> "CLOSED"] @@
  <<"OPEN", "SEND_DATA">> :> [fn |-> "none", to |-> "OPEN"] @@
  <<"OPEN", "SEND_WINDOW_UPDATE">> :> [fn |-> "none", to |-> "OPEN"] @@
  <<"OPEN", "SEND_END_STREAM">> :> [fn |-> "none", to |-> "HALF_CLOSED_LOCAL"] @@
  <<"OPEN", "RECV_HEADERS">> :> [fn |-> "response_received", to |-> "OPEN"] @@
  <<"OPEN", "RECV_PUSH_PROMISE">> :> [fn |-> "recv_push_promise", to |-> "OPEN"] @@
  <<"OPEN", "RECV_RST_STREAM">> :> [fn |-> "stream_reset", to |-> "CLOSED"] @@
  <<"OPEN", "RECV_DATA">> :> [fn |-> "data_received", to |-> "OPEN"] @@
  <<"OPEN", "RECV_WINDOW_UPDATE">> :> [fn |-> "window_updated", to |-> "OPEN"] @@
  <<"OPEN", "RECV_END_STREAM">> :> [fn |-> "stream_half_closed", to |-> "HALF_CLOSED_REMOTE"] @@
  <<"OPEN", "SEND_INFORMATIONAL_HEADERS">> :> [fn |-> "send_informational_response", to |-> "OPEN"] @@
  <<"OPEN", "RECV_INFORMATIONAL_HEADERS">> :> [fn |-> "recv_informational_response", to |-> "OPEN"] @@
  <<"OPEN", "SEND_ALTERNATIVE_SERVICE">> :> [fn |-> "send_alt_svc", to |-> "OPEN"] @@
  <<"OPEN", "RECV_ALTERNATIVE_SERVICE">> :> [fn |-> "recv_alt_svc", to |-> "OPEN"] @@
  <<"HALF_CLOSED_REMOTE", "SEND_HEADERS">> :> [fn |-> "response_sent", to |-> "HALF_CLOSED_REMOTE"] @@
  <<"HALF_CLOSED_REMOTE", "SEND_PUSH_PROMISE">> :> [fn |-> "send_push_promise", to |-> "HALF_CLOSED_REMOTE"] @@
  <<"HALF_CLOSED_REMOTE", "SEND_RST_STREAM">> :> [fn |-> "send_reset_stream", to |-> "CLOSED"] @@
  <<"HALF_CLOSED_REMOTE", "SEND_DATA">> :> [fn |-> "none", to |-> "HALF_CLOSED_REMOTE"] @@
  <<"HALF_CLOSED_REMOTE", "SEND_WINDOW_UPDATE">> :> [fn |-> "none", to |-> "HALF_CLOSED_REMOTE"] @@
  <<"HALF_CLOSED_REMOTE", "SEND_END_STREAM">> :> [fn |-> "send_end_stream", to |-> "CLOSED"] @@
  <<"HALF_CLOSED_REMOTE", "RECV_HEADERS">> :> [fn |-> "reset_stream_on_error", to |-> "CLOSED"] @@
  <<"HALF_CLOSED_REMOTE", "RECV_PUSH_PROMISE">> :> [fn |-> "reset_stream_on_error", to |-> "CLOSED"] @@
  <<"HALF_CLOSED_REMOTE", "RECV_RST_STREAM">> :> [fn |-> "stream_reset", to |-> "CLOSED"] @@
  <<"HALF_CLOSED_REMOTE", "RECV_DATA">> :> [fn |-> "reset_stream_on_error", to |-> "CLOSED"] @@
  <<"HALF_CLOSED_REMOTE", "RECV_WINDOW_UPDATE">> :> [fn |-> "window_updated", to |-> "HALF_CLOSED_REMOTE"] @@
  <<"HALF_CLOSED_REMOTE", "SEND_INFORMATIONAL_HEADERS">> :> [fn |-> "send_informational_response", to |-> "HALF_CLOSED_REMOTE"] @@
  <<"HALF_CLOSED_REMOTE", "SEND_ALTERNATIVE_SERVICE">> :> [fn |-> "send_alt_svc", to |-> "HALF_CLOSED_REMOTE"] @@
  <<"HALF_CLOSED_REMOTE", "RECV_ALTERNATIVE_SERVICE">> :> [fn |-> "recv_alt_svc", to |-> "HALF_CLOSED_REMOTE"] @@
  <<"HALF_CLOSED_LOCAL", "SEND_RST_STREAM">> :> [fn |-> "send_reset_stream", to |-> "CLOSED"] @@
  <<"HALF_CLOSED_LOCAL", "SEND_WINDOW_UPDATE">> :> [fn |-> "none", to |-> "HALF_CLOSED_LOCAL"] @@
  <<"HALF_CLOSED_LOCAL", "RECV_HEADERS">> :> [fn |-> "response_received", to |-> "HALF_CLOSED_LOCAL"] @@
  <<"HALF_CLOSED_LOCAL", "RECV_PUSH_PROMISE">> :> [fn |-> "recv_push_promise", to |-> "HALF_CLOSED_LOCAL"] @@
  <<"HALF_CLOSED_LOCAL", "RECV_RST_STREAM">> :> [fn |-> "stream_reset", to |-> "CLOSED"] @@
  <<"HALF_CLOSED_LOCAL", "RECV_DATA">> :> [fn |-> "data_received", to |-> "HALF_CLOSED_LOCAL"] @@
  <<"HALF_CLOSED_LOCAL", "RECV_WINDOW_UPDATE">> :> [fn |-> "window_updated", to |-> "HALF_CLOSED_LOCAL"] @@
  <<"HALF_CLOSED_LOCAL", "RECV_END_STREAM">> :> [fn |-> "stream_ended", to |-> "CLOSED"] @@
  <<"HALF_CLOSED_LOCAL", "RECV_INFORMATIONAL_HEADERS">> :> [fn |-> "recv_informational_response", to |-> "HALF_CLOSED_LOCAL"] @@
  <<"HALF_CLOSED_LOCAL", "SEND_ALTERNATIVE_SERVICE">> :> [fn |-> "send_alt_svc", to |-> "HALF_CLOSED_LOCAL"] @@
  <<"HALF_CLOSED_LOCAL", "RECV_ALTERNATIVE_SERVICE">> :> [fn |-> "recv_alt_svc", to |-> "HALF_CLOSED_LOCAL"] @@
  <<"CLOSED", "SEND_HEADERS">> :> [fn |-> "send_on_closed_stream", to |-> "CLOSED"] @@
  <<"CLOSED", "SEND_PUSH_PROMISE">> :> [fn |-> "send_push_on_closed_stream", to |-> "CLOSED"] @@
  <<"CLOSED", "SEND_RST_STREAM">> :> [fn |-> "send_on_closed_stream", to |-> "CLOSED"] @@
  <<"CLOSED", "SEND_DATA">> :> [fn |-> "send_on_closed_stream", to |-> "CLOSED"] @@
  <<"CLOSED", "SEND_WINDOW_UPDATE">> :> [fn |-> "send_on_closed_stream", to |-> "CLOSED"] @@
  <<"CLOSED", "SEND_END_STREAM">> :> [fn |-> "send_on_closed_stream", to |-> "CLOSED"] @@
  <<"CLOSED", "RECV_HEADERS">> :> [fn |-> "recv_on_closed_stream", to |-> "CLOSED"] @@
  <<"CLOSED", "RECV_PUSH_PROMISE">> :> [fn |-> "recv_push_on_closed_stream", to |-> "CLOSED"] @@
  <<"CLOSED", "RECV_RST_STREAM">> :> [fn |-> "none", to |-> "CLOSED"] @@
  <<"CLOSED", "RECV_DATA">> :> [fn |-> "recv_on_closed_stream", to |-> "CLOSED"] @@
  <<"CLOSED", "RECV_WINDOW_UPDATE">> :> [fn |-> "none", to |-> "CLOSED"] @@
  <<"CLOSED", "RECV_END_STREAM">> :> [fn |-> "none", to |-> "CLOSED"] @@
  <<"CLOSED", "RECV_INFORMATIONAL_HEADERS">> :> [fn |-> "recv_on_closed_stream", to |-> "CLOSED"] @@
  <<"CLOSED", "RECV_ALTERNATIVE_SERVICE">> :> [fn |-> "none", to |-> "CLOSED"]

ConnTable ==
  <<"IDLE", "SEND_HEADERS">> :> "CLIENT_OPEN" @@
  <<"IDLE", "SEND_GOAWAY">> :> "CLOSED" @@
  <<"IDLE", "SEND_WINDOW_UPDATE">> :> "IDLE" @@
  <<"IDLE", "SEND_PING">> :> "IDLE" @@
  <<"IDLE", "SEND_SETTINGS">> :> "IDLE" @@
  <<"IDLE", "SEND_PRIORITY">> :> "IDLE" @@
  <<"IDLE", "RECV_HEADERS">> :> "SERVER_OPEN" @@
  <<"IDLE", "RECV_GOAWAY">> :> "CLOSED" @@
  <<"IDLE", "RECV_WINDOW_UPDATE">> :> "IDLE" @@
  <<"IDLE", "RECV_PING">> :> "IDLE" @@
  <<"IDLE", "RECV_SETTINGS">> :> "IDLE" @@
  <<"IDLE", "RECV_PRIORITY">> :> "IDLE" @@
  <<"IDLE", "SEND_ALTERNATIVE_SERVICE">> :> "SERVER_OPEN" @@
  <<"IDLE", "RECV_ALTERNATIVE_SERVICE">> :> "CLIENT_OPEN" @@
  <<"CLIENT_OPEN", "SEND_HEADERS">> :> "CLIENT_OPEN" @@
  <<"CLIENT_OPEN", "SEND_DATA">> :> "CLIENT_OPEN" @@
  <<"CLIENT_OPEN", "SEND_GOAWAY">> :> "CLOSED" @@
  <<"CLIENT_OPEN", "SEND_WINDOW_UPDATE">> :> "CLIENT_OPEN" @@
  <<"CLIENT_OPEN", "SEND_PING">> :> "CLIENT_OPEN" @@
  <<"CLIENT_OPEN", "SEND_SETTINGS">> :> "CLIENT_OPEN" @@
  <<"CLIENT_OPEN", "SEND_RST_STREAM">> :> "CLIENT_OPEN" @@
  <<"CLIENT_OPEN", "SEND_PRIORITY">> :> "CLIENT_OPEN" @@
  <<"CLIENT_OPEN", "RECV_HEADERS">> :> "CLIENT_OPEN" @@
  <<"CLIENT_OPEN", "RECV_PUSH_PROMISE">> :> "CLIENT_OPEN" @@
  <<"CLIENT_OPEN", "RECV_DATA">> :> "CLIENT_OPEN" @@
  <<"CLIENT_OPEN", "RECV_GOAWAY">> :> "CLOSED" @@
  <<"CLIENT_OPEN", "RECV_WINDOW_UPDATE">> :> "CLIENT_OPEN" @@
  <<"CLIENT_OPEN", "RECV_PING">> :> "CLIENT_OPEN" @@
  <<"CLIENT_OPEN", "RECV_SETTINGS">> :> "CLIENT_OPEN" @@
  <<"CLIENT_OPEN", "RECV_RST_STREAM">> :> "CLIENT_OPEN" @@
  <<"CLIENT_OPEN", "RECV_PRIORITY">> :> "CLIENT_OPEN" @@
  <<"CLIENT_OPEN", "RECV_ALTERNATIVE_SERVICE">> :> "CLIENT_OPEN" @@
  <<"SERVER_OPEN", "SEND_HEADERS">> :> "SERVER_OPEN" @@
  <<"SERVER_OPEN", "SEND_PUSH_PROMISE">> :> "SERVER_OPEN" @@
  <<"SERVER_OPEN", "SEND_DATA">> :> "SERVER_OPEN" @@
  <<"SERVER_OPEN", "SEND_GOAWAY">> :> "CLOSED" @@
  <<"SERVER_OPEN", "SEND_WINDOW_UPDATE">> :> "SERVER_OPEN" @@
  <<"SERVER_OPEN", "SEND_PING">> :> "SERVER_OPEN" @@
  <<"SERVER_OPEN", "SEND_SETTINGS">> :> "SERVER_OPEN" @@
  <<"SERVER_OPEN", "SEND_RST_STREAM">> :> "SERVER_OPEN" @@
  <<"SERVER_OPEN", "SEND_PRIORITY">> :> "SERVER_OPEN" @@
  <<"SERVER_OPEN", "RECV_HEADERS">> :> "SERVER_OPEN" @@
  <<"SERVER_OPEN", "RECV_DATA">> :> "SERVER_OPEN" @@
  <<"SERVER_OPEN", "RECV_GOAWAY">> :> "CLOSED" @@
  <<"SERVER_OPEN", "RECV_WINDOW_UPDATE">> :> "SERVER_OPEN" @@
  <<"SERVER_OPEN", "RECV_PING">> :> "SERVER_OPEN" @@
  <<"SERVER_OPEN", "RECV_SETTINGS">> :> "SERVER_OPEN" @@
  <<"SERVER_OPEN", "RECV_RST_STREAM">> :> "SERVER_OPEN" @@
  <<"SERVER_OPEN", "RECV_PRIORITY">> :> "SERVER_OPEN" @@
  <<"SERVER_OPEN", "SEND_ALTERNATIVE_SERVICE">> :> "SERVER_OPEN" @@
  <<"SERVER_OPEN", "RECV_ALTERNATIVE_SERVICE">> :> "SERVER_OPEN" @@
  <<"CLOSED", "SEND_GOAWAY">> :> "CLOSED" @@
  <<"CLOSED", "RECV_GOAWAY">> :> "CLOSED"
=============================================================================
