------------------------------- MODULE Trace -------------------------------
(***************************************************************************)
(* Trace validation: executions RECORDED from the real code are checked    *)
(* against the endpoint specification.                                     *)
(*                                                                         *)
(* A trace is a sequence of steps in the scenario frame's format (a public *)
(* call, a receive_data() of harness-built frames, or a delivery of the    *)
(* frames in flight), each carrying the observation `p` the harness        *)
(* recorded from the real H2Connection objects: result / exception,        *)
(* frames taken from data_to_send(), events, window queries, and the       *)
(* read-only projection of the internal state.                             *)
(*                                                                         *)
(* The trace specification consumes one recorded step per transition:      *)
(*   IsEvent  : the next line of the trace gives the action and its        *)
(*              arguments (the arguments are bound to the spec action      *)
(*              Do(state, step) of module Scn);                            *)
(*   accept   : the observation logged at that line equals the             *)
(*              observation the specification allows there (the endpoint   *)
(*              model is deterministic, so "allows" is "predicts").        *)
(* The first line whose observation the specification does not allow ends  *)
(* the trace with verdict "rejected" (with the differing fields and the    *)
(* specification's prediction); a trace consumed to its end is "accepted". *)
(* Verdicts are total: every trace gets exactly one verdict line.          *)
(*                                                                         *)
(* All property formulas P_Cxx of module Scn are state predicates over     *)
(* (eps, chan, last, src) and are evaluated here in every state of every   *)
(* recorded execution (PropMonitor): a formula that fails prints a         *)
(* PROPFAIL line (TLC keeps going so that every trace gets its verdict).   *)
(*                                                                         *)
(* Many traces are validated in one TLC run: the initial states are the    *)
(* traces of the file named by the environment variable TRACE_FILE.        *)
(***************************************************************************)
EXTENDS Scn, IOUtils

Traces == JsonDeserialize(IOEnv.TRACE_FILE)       \* sequence of [id, steps]

VARIABLES tid,        \* which trace this behaviour validates
          pos,        \* next line of the trace
          verdict     \* [k, at, fields, pred]: k in {"running", "accepted", "rejected", "cut"}
tvars == <<vars, tid, pos, verdict>>

Running == [k |-> "running", at |-> 0, fields |-> {}, pred |-> <<>>]
Steps(t) == Traces[t].steps

\* equality that is total on values of different shapes (TLC refuses to compare e.g. a string with a number)
\* (ToJson writes record fields in the order the value happens to hold them; comparing a value with itself makes TLC
\* normalise it, nested records included, after which the order is canonical)
Norm(v) == IF v = v THEN v ELSE v
SafeEq(a, b) == ToJson(Norm(a)) = ToJson(Norm(b))

\* when the model says the sender's HPACK context is no longer predictable, header lists of emitted blocks are not compared
StripH(o) == [i \in DOMAIN o |-> IF "h" \in DOMAIN o[i] THEN [o[i] EXCEPT !.h = "-"] ELSE o[i]]

\* names of the observation fields in which the recorded observation differs from what the specification allows
DiffFields(pred, obs) ==
  LET po == IF pred.u THEN StripH(pred.o) ELSE pred.o
      oo == IF pred.u THEN StripH(obs.o) ELSE obs.o
  IN  (IF SafeEq(pred.r, obs.r) THEN {} ELSE {"r"})
      \cup (IF SafeEq(po, oo) THEN {} ELSE {"o"})
      \cup (IF SafeEq(pred.e, obs.e) THEN {} ELSE {"e"})
      \cup {"q." \o k : k \in {k \in DOMAIN pred.q : ~(k \in DOMAIN obs.q /\ SafeEq(pred.q[k], obs.q[k]))}}
      \cup {"z." \o k : k \in {k \in DOMAIN pred.z : k \in DOMAIN obs.z /\ ~SafeEq(obs.z[k], "unreadable")
                                                       /\ ~SafeEq(pred.z[k], obs.z[k])}}

\* the logged line without the observation: the action and its arguments
ActionOf(s) == [f \in DOMAIN s \ {"p"} |-> s[f]]

TraceInit ==
  /\ tid \in 1..Len(Traces)
  /\ pos = 1
  /\ verdict = Running
  /\ eps = St0.eps /\ chan = St0.chan
  /\ last = [a |-> "init"]
  /\ hist = <<>>
  /\ src = <<>>

\* A step that hands a header block to an HPACK decoder that gave up in the middle of an earlier block (after which the
\* connection is closed anyway) has no predictable outcome: the trace is validated up to that point ("cut").
FeedsLostDecoder(s) == Unpredictable([eps |-> eps, chan |-> chan], s)

TraceNext ==
  /\ verdict.k = "running"
  /\ pos <= Len(Steps(tid))
  /\ FeedsLostDecoder(Steps(tid)[pos]) =>
        /\ verdict' = [Running EXCEPT !.k = "cut", !.at = pos - 1]
        /\ UNCHANGED <<vars, tid, pos>>
  /\ ~FeedsLostDecoder(Steps(tid)[pos]) =>
     LET s == Steps(tid)[pos]
         d == Do([eps |-> eps, chan |-> chan], ActionOf(s))
         df == DiffFields(d.last.p, s.p)
     IN /\ eps' = d.S.eps /\ chan' = d.S.chan /\ last' = d.last
        /\ src' = <<eps, chan>>
        /\ hist' = hist
        /\ pos' = pos + 1
        /\ tid' = tid
        /\ verdict' = IF (\E x \in Roles : d.S.eps[x].sat) THEN [Running EXCEPT !.k = "cut", !.at = pos - 1]
                      ELSE IF df # {} THEN [k |-> "rejected", at |-> pos, fields |-> df, pred |-> d.last.p]
                      ELSE IF pos = Len(Steps(tid)) THEN [Running EXCEPT !.k = "accepted", !.at = pos]
                      ELSE IF Pair /\ \E x \in Roles : d.S.eps[x].hd THEN [Running EXCEPT !.k = "cut", !.at = pos]
                      ELSE IF \E x \in Roles : d.S.eps[x].sat THEN [Running EXCEPT !.k = "cut", !.at = pos]
                      ELSE Running

TraceSpec == TraceInit /\ [][TraceNext]_tvars

\* one line per trace (an empty trace is accepted at once)
EmitVerdict ==
  /\ (verdict.k # "running") =>
        PrintT(<<"VERDICT", ToJson([tid |-> tid, id |-> Traces[tid].id, k |-> verdict.k, at |-> verdict.at,
                                    fields |-> verdict.fields, pred |-> verdict.pred, dev |-> IF IsStep THEN last.dev ELSE {},
                                    devb |-> IF HasSrc THEN src[1][last.x].dev ELSE {}])>>)
  /\ (verdict.k = "running" /\ Len(Steps(tid)) = 0) =>
        PrintT(<<"VERDICT", ToJson([tid |-> tid, id |-> Traces[tid].id, k |-> "accepted", at |-> 0,
                                    fields |-> {}, pred |-> <<>>, dev |-> {}, devb |-> {}])>>)

\* ---------------------------------------------------------------- property formulas on every state of every trace
Formulas == <<
  <<"RaisingCallEmitsNothing", RaisingCallEmitsNothing>>,
  <<"OnlyKnownExceptions", OnlyKnownExceptions>>,
  <<"P_C01_DeliveredSendsAccepted", P_C01_DeliveredSendsAccepted>>,
  <<"P_C13_CleanSendsDecode", P_C13_CleanSendsDecode>>,
  <<"P_C02_FramesWithinLimits", P_C02_FramesWithinLimits>>,
  <<"P_C03_SendWithinWindows", P_C03_SendWithinWindows>>,
  <<"P_C03_WindowsBounded", P_C03_WindowsBounded>>,
  <<"P_C04_InboundDataExactlyAtWindow", P_C04_InboundDataExactlyAtWindow>>,
  <<"P_C04_RemoteWindowIsAdvertised", P_C04_RemoteWindowIsAdvertised>>,
  <<"P_C05_AutoUpdateWithinBounds", P_C05_AutoUpdateWithinBounds>>,
  <<"P_C05_NoStall", P_C05_NoStall>>,
  <<"P_C25_UpgradeHandsOver", P_C25_UpgradeHandsOver>>,
  <<"P_C06_StreamStatesAreRfcStates", P_C06_StreamStatesAreRfcStates>>,
  <<"P_C07_EventsFitRole", P_C07_EventsFitRole>>,
  <<"P_C07_EventGrammar", P_C07_EventGrammar>>,
  <<"P_C08_RoleRestrictedSends", P_C08_RoleRestrictedSends>>,
  <<"P_C09_IdsIncreaseWithParity", P_C09_IdsIncreaseWithParity>>,
  <<"P_C10_OutboundWithinPeerLimit", P_C10_OutboundWithinPeerLimit>>,
  <<"P_C10_InboundWithinLocalLimit", P_C10_InboundWithinLocalLimit>>,
  <<"P_C11_PeerSettingsAckedOnce", P_C11_PeerSettingsAckedOnce>>,
  <<"P_C12_SettingsValidation", P_C12_SettingsValidation>>,
  <<"P_C14_EmittedBlocksConformant", P_C14_EmittedBlocksConformant>>,
  <<"P_C15_DeliveredBlocksConformant", P_C15_DeliveredBlocksConformant>>,
  <<"P_C16_ContentLength", P_C16_ContentLength>>,
  <<"P_C18_OneGoAwayWithCode", P_C18_OneGoAwayWithCode>>,
  <<"P_C18_SizeViolationsAreFrameSizeErrors", P_C18_SizeViolationsAreFrameSizeErrors>>,
  <<"P_C19_ClosedStaysQuiet", P_C19_ClosedStaysQuiet>>,
  <<"P_C19_GoAwayDiscardsOutput", P_C19_GoAwayDiscardsOutput>>,
  <<"P_C20_ResetRacesAreStreamErrors", P_C20_ResetRacesAreStreamErrors>>,
  <<"P_C22_PushOnlyWhenAllowed", P_C22_PushOnlyWhenAllowed>>,
  <<"P_C23_PriorityChangesNothing", P_C23_PriorityChangesNothing>>,
  <<"P_C24_AltSvcRules", P_C24_AltSvcRules>>,
  <<"P_C26_PingAnsweredOnce", P_C26_PingAnsweredOnce>>,
  <<"P_C27_ClosedMemoryBounded", P_C27_ClosedMemoryBounded>>,
  <<"P_C27_NoStateForNonOpeningFrames", P_C27_NoStateForNonOpeningFrames>> >>

\* evaluated on the states the specification reaches along the recorded execution (the rejected step included: its
\* state is the one the specification predicts); never FALSE, so that TLC keeps going
PropMonitor ==
  \A i \in 1..Len(Formulas) :
     Formulas[i][2] \/ PrintT(<<"PROPFAIL", ToJson([tid |-> tid, id |-> Traces[tid].id, at |-> pos - 1, formula |-> Formulas[i][1],
                                                             dev |-> IF IsStep THEN last.dev ELSE {}])>>)
=============================================================================
