------------------------------- MODULE MC_BigS -------------------------------
(* Header blocks around the frame-size limit on a server: the first block it writes is a response or a pushed request    *)
(* whose HPACK block is 16380 ... 32768 octets long; PUSH_PROMISE carries the promised stream id in front of the block.   *)
EXTENDS Scn
mcRoles == {"s"}
mcCallsC == {}
mcCallsS ==
  {[op |-> "hdr", sid |-> 1, h |-> h, es |-> TRUE, pr |-> <<>>, sz |-> TRUE] : h \in {"resp_big_16380", "resp_big_16384", "resp_big_16385", "resp200"}}
  \cup {[op |-> "push", sid |-> 1, pid |-> 2, h |-> h, sz |-> TRUE] : h \in {"req_big_16379", "req_big_16380", "req_big_16384", "req_big_32768", "req_get"}}
  \cup {[op |-> "data", sid |-> 1, n |-> 1, tag |-> "A", es |-> TRUE, pad |-> -1]}
mcAdvC == {}
mcAdvS == Singles({ASet(<<<<5, 16385>>>>), ASet(<<<<5, 32768>>>>), APing("A", FALSE)})
mcSetup == Handshake("s", <<>>) \o <<CRecv("s", <<AH(1, "req_get", TRUE)>>)>>
mcQSids == <<1, 2>>
mcCfgC == DefaultCfg
mcCfgS == DefaultCfg
mcMaxClosed == 2
mcMaxChan == 3
mcMaxK == 1
=============================================================================
