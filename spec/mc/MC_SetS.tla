------------------------------ MODULE MC_SetS ------------------------------
(* Settings on a server: update_settings with one or several keys (valid, invalid, unknown ids), several   *)
(* frames outstanding, ACKs and peer SETTINGS arriving anywhere, and the consumers of the settings        *)
(* (concurrency limit, frame size, stream windows).                                                        *)
EXTENDS Scn
mcRoles == {"s"}
mcCallsC == {}
mcCallsS ==
  [op : {"set"}, s : {<<<<3, 1>>>>, <<<<3, 0>>>>, <<<<4, 20>>>>, <<<<4, 5>>, <<5, 16385>>>>, <<<<5, 16383>>>>,
                     <<<<3, 2>>, <<2, 2>>>>, <<<<7, 9>>>>, <<<<6, 100>>>>, <<<<4, -1>>>>, <<<<8, 1>>>>, <<<<1, 0>>>>}]
  \cup [op : {"hdr"}, sid : {1, 3}, h : {"resp200"}, es : {TRUE}, pr : {<<>>}]
  \cup [op : {"oin"}, sid : {1}]
mcAdvC == {}
mcAdvS ==
  Singles({AAck, ASet(<<>>), ASet(<<<<3, 1>>>>), ASet(<<<<4, 3>>, <<5, 20000>>>>), ASet(<<<<2, 0>>>>), ASet(<<<<2, 2>>>>),
           ASet(<<<<4, -2147483647 - 1>>>>), ASet(<<<<5, 16383>>>>), ASet(<<<<5, 16777216>>>>), ASet(<<<<9, 7>>, <<1, 100>>>>), ASet(<<<<1, 0>>>>),
           ASet(<<<<8, 2>>>>), ASet(<<<<6, -1>>>>), ASet(<<<<3, -1>>>>),
           AH(1, "req_get", FALSE), AH(3, "req_get", FALSE), AH(5, "req_get", TRUE), AD(1, 3, FALSE, -1)})
mcSetup == Handshake("s", <<>>)
mcQSids == <<1, 3>>
mcCfgC == DefaultCfg
mcCfgS == DefaultCfg
mcMaxClosed == 2
mcMaxChan == 3
mcMaxK == 1
=============================================================================
