CONSTANTS
  Roles <- mcRoles
  CallsC <- mcCallsC
  CallsS <- mcCallsS
  AdvC <- mcAdvC
  AdvS <- mcAdvS
  Setup <- mcSetup
  CfgC <- DefaultCfg
  CfgS <- DefaultCfg
  MaxClosed = 2
  QSids <- mcQSids
  MaxDepth = 4
  MaxChan = 3
  MaxK = 2
  EMIT = TRUE
INIT Init
NEXT Next
CONSTRAINT Bound
INVARIANT EmitMeta
INVARIANT EmitTrace
CHECK_DEADLOCK FALSE
VIEW GenView
