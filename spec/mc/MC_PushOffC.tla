----------------------------- MODULE MC_PushOffC -----------------------------
(* A client that has disabled push (ENABLE_PUSH = 0 sent and acknowledged) with one request open: PUSH_PROMISE on a live     *)
(* parent, on a parent the client has reset (before and after the closed stream's record was collected), on a parent the   *)
(* server reset or ended, and with push enabled again while the promise is in flight.                                        *)
EXTENDS Scn
mcRoles == {"c"}
mcCallsS == {}
mcCallsC ==
  {[op |-> "rst", sid |-> 1, code |-> 8], CHdr(3, "req_get", TRUE), [op |-> "oout", sid |-> 1], [op |-> "set", s |-> <<<<2, 1>>>>],
   [op |-> "end", sid |-> 1]}
mcAdvS == {}
mcAdvC == Singles({APP(1, 2, "req_get_b"), APP(3, 2, "req_get_b"), APP(1, 4, "req_get_b"), ARst(1, 2), AH(1, "resp200", TRUE), AAck,
                   AH(2, "resp200", FALSE)})
mcSetup == Handshake("c", <<>>) \o <<CCall("c", [op |-> "set", s |-> <<<<2, 0>>>>]), CRecv("c", <<AAck>>),
                                     CCall("c", CHdr(1, "req_get", FALSE))>>
mcQSids == <<1, 2, 3>>
mcCfgC == DefaultCfg
mcCfgS == DefaultCfg
mcMaxClosed == 2
mcMaxChan == 3
mcMaxK == 1
=============================================================================
