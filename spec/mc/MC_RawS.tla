------------------------------- MODULE MC_RawS -------------------------------
(* The frame layer on a server with request stream 1 open: every frame type with boundary lengths, flags, padding and    *)
(* stream ids (H2!RawParse), header blocks in fragments (HEADERS + CONTINUATION, interrupted, too many), frames refused   *)
(* by the parser behind frames that were handled in the same receive_data() call, and what later calls do with them.     *)
EXTENDS Scn
mcRoles == {"s"}
mcCallsC == {}
mcCallsS == {CHdr(1, "resp200", FALSE), CData(1, 2, FALSE), [op |-> "ping", tag |-> "A", n |-> 8], [op |-> "ack", n |-> 3, sid |-> 1]}
mcAdvC == {}
D(fl, sid, len, pad) == ARaw(0, fl, sid, len, [pad |-> pad, tag |-> "B"])
H(fl, sid, len, pad, bl, apad) == ARaw(1, fl, sid, len, [pad |-> pad, pr |-> <<7, 0, TRUE>>, bl |-> bl, apad |-> apad])
C(fl, sid, len) == ARaw(9, fl, sid, len, [bl |-> len])
RawFrames ==
  { D(0, 1, 0, -1), D(0, 1, 3, -1), D(1, 1, 2, -1), D(8, 1, 0, -1), D(8, 1, 1, 0), D(8, 1, 1, 1), D(8, 1, 4, 3), D(8, 1, 4, 4), D(9, 1, 3, 1),
    D(8, 1, 4, 255), D(0, 0, 2, -1), D(0, 1, 16384, -1), D(0, 1, 16385, -1), D(0, 5, 1, -1),
    ARaw(2, 0, 1, 5, [w |-> 9, dep |-> 3, excl |-> FALSE]), ARaw(2, 0, 1, 4, [w |-> 9, dep |-> 3, excl |-> FALSE]),
    ARaw(2, 0, 1, 6, [w |-> 9, dep |-> 3, excl |-> FALSE]), ARaw(2, 0, 0, 5, [w |-> 9, dep |-> 3, excl |-> FALSE]),
    ARaw(2, 0, 1, 5, [w |-> 9, dep |-> 1, excl |-> TRUE]),
    ARaw(3, 0, 1, 4, [code |-> 8]), ARaw(3, 0, 1, 3, [code |-> 8]), ARaw(3, 0, 1, 5, [code |-> 8]), ARaw(3, 0, 0, 4, [code |-> 8]),
    ARaw(4, 1, 0, 0, [s |-> <<>>]), ARaw(4, 1, 0, 6, [s |-> <<<<3, 5>>>>]), ARaw(4, 0, 0, 5, [s |-> <<>>]), ARaw(4, 0, 0, 6, [s |-> <<<<3, 5>>>>]),
    ARaw(4, 0, 0, 7, [s |-> <<<<3, 5>>>>]), ARaw(4, 0, 1, 0, [s |-> <<>>]), ARaw(4, 0, 0, 12, [s |-> <<<<4, 7>>, <<4, 9>>>>]),
    ARaw(6, 0, 0, 8, [tag |-> "A"]), ARaw(6, 1, 0, 8, [tag |-> "A"]), ARaw(6, 0, 0, 7, [tag |-> "A"]), ARaw(6, 0, 0, 9, [tag |-> "A"]),
    ARaw(6, 0, 1, 8, [tag |-> "A"]),
    ARaw(7, 0, 0, 8, [last |-> 1, code |-> 2, tag |-> "-"]), ARaw(7, 0, 0, 7, [last |-> 1, code |-> 2, tag |-> "-"]),
    ARaw(7, 0, 0, 16, [last |-> 1, code |-> 2, tag |-> "A"]), ARaw(7, 0, 1, 8, [last |-> 1, code |-> 2, tag |-> "-"]),
    ARaw(8, 0, 0, 4, [inc |-> 5]), ARaw(8, 0, 1, 4, [inc |-> 5]), ARaw(8, 0, 0, 4, [inc |-> 0]), ARaw(8, 0, 1, 4, [inc |-> -1]),
    ARaw(8, 0, 0, 3, [inc |-> 5]), ARaw(8, 0, 0, 5, [inc |-> 5]), ARaw(8, 0, 1, 4, [inc |-> 2147483647]),
    ARaw(10, 0, 0, 5, [olen |-> 1, org |-> "o", fld |-> "h2"]), ARaw(10, 0, 0, 1, [olen |-> 1, org |-> "o", fld |-> "h2"]),
    ARaw(10, 0, 0, 5, [olen |-> 9, org |-> "o", fld |-> "h2"]), ARaw(10, 0, 1, 4, [olen |-> 0, org |-> "", fld |-> "h2"]),
    ARaw(32, 0, 0, 3, <<>>), ARaw(32, 5, 7, 0, <<>>),
    H(4, 3, 0, -1, 0, 0), H(5, 3, 1, -1, 1, 0), H(12, 3, 0, -1, 0, 0), H(12, 3, 1, 0, 0, 0), H(12, 3, 2, 1, 0, 1), H(12, 3, 3, 1, 1, 1),
    H(36, 3, 4, -1, 0, 0), H(36, 3, 5, -1, 0, 0), H(36, 3, 6, -1, 1, 0), H(44, 3, 7, 1, 0, 1), H(4, 0, 1, -1, 1, 0), H(4, 1, 1, -1, 1, 0),
    H(5, 1, 0, -1, 0, 0), H(0, 3, 1, -1, 1, 0), H(1, 1, 0, -1, 0, 0),
    C(4, 3, 1), C(0, 3, 1), C(4, 1, 0), C(4, 5, 1), C(4, 0, 1),
    ARaw(5, 4, 1, 5, [pad |-> -1, pid |-> 2, bl |-> 1, apad |-> 0]) }
Cont64 == [i \in 1..64 |-> C(IF i = 64 THEN 4 ELSE 0, 3, 1)]
Cont64e == [i \in 1..64 |-> C(0, 3, 0)]          \* empty CONTINUATION frames count too
mcAdvS ==
  Singles(RawFrames \cup {APing("B", FALSE), AAck, AH(5, "req_get", TRUE), AD(1, 2, FALSE, -1), AWU(0, 3)})
  \cup { <<APing("A", FALSE), D(8, 1, 0, -1)>>, <<ASet(<<<<4, 9>>>>), AH(5, "req_get", FALSE), D(0, 0, 2, -1), APing("B", FALSE)>>,
         <<AD(1, 1, FALSE, -1), ARaw(6, 0, 0, 7, [tag |-> "A"]), AD(1, 1, FALSE, -1)>>,
         <<AH(7, "req_get", TRUE), D(0, 1, 16385, -1)>>, <<APing("A", FALSE), ARaw(8, 0, 0, 4, [inc |-> 0])>>,
         <<H(0, 3, 1, -1, 1, 0), C(0, 3, 1), C(4, 3, 1)>>, <<H(0, 3, 1, -1, 1, 0), APing("A", FALSE)>>, <<H(0, 3, 1, -1, 1, 0), C(4, 5, 1)>>,
         <<H(0, 3, 1, -1, 1, 0)>> \o Cont64, <<H(0, 3, 1, -1, 1, 0)>> \o Cont64e, <<H(0, 3, 1, -1, 1, 0)>> \o SubSeq(Cont64, 1, 63), <<H(1, 1, 0, -1, 0, 0), C(4, 1, 0)>> }
mcSetup == Handshake("s", <<>>) \o <<CRecv("s", <<AH(1, "req_post_cl3", FALSE)>>)>>
mcQSids == <<1, 3>>
mcCfgC == DefaultCfg
mcCfgS == DefaultCfg
mcMaxClosed == 2
mcMaxChan == 3
mcMaxK == 1
=============================================================================
