------------------------------ MODULE MC_PushC ------------------------------
(* Server push seen by a client: promises on open, reset and finished parents, re-used promised ids, the    *)
(* promised stream while reserved (own INITIAL_WINDOW_SIZE / ENABLE_PUSH changes and their ACKs), response  *)
(* and padded DATA on it, local resets racing all of these; the peer resetting the parent before it pushes.  *)
EXTENDS Scn
mcRoles == {"c"}
mcCallsS == {}
mcCallsC ==
  {[op |-> "rst", sid |-> 1, code |-> 8], [op |-> "rst", sid |-> 2, code |-> 8],
   [op |-> "set", s |-> <<<<4, 3>>>>], [op |-> "set", s |-> <<<<4, 70000>>>>], [op |-> "set", s |-> <<<<2, 0>>>>],
   [op |-> "end", sid |-> 1], [op |-> "oin", sid |-> 1]}
mcAdvS == {}
mcAdvC ==
  Singles({APP(1, 2, "req_head"),       \* the promised request is a HEAD: nothing changes for the parent stream's own response (C16)
           AH(1, "resp200_cl3", FALSE), AD(1, 3, TRUE, -1),
           APP(1, 2, "req_get_b"), APP(3, 2, "req_get_b"), APP(1, 4, "req_get_b"), APP(2, 4, "req_get_b"), AAck,
           AH(2, "resp200", FALSE), AH(2, "resp200", TRUE), AH(1, "resp200", TRUE),
           AD(2, 2, FALSE, -1), AD(2, 2, FALSE, 2), AD(1, 2, FALSE, 3), ARst(2, 8), ARst(1, 8), AWU(2, 5),
           \* END_STREAM and priority fields on the response of a pushed stream (closes it: C07 related events)
           AHP(2, "resp200", TRUE, <<5, 0, FALSE>>)})
mcSetup == Handshake("c", <<>>) \o <<CCall("c", CHdr(1, "req_get", FALSE)), CCall("c", CHdr(3, "req_get", TRUE))>>
mcQSids == <<1, 2, 3>>
mcCfgC == DefaultCfg
mcCfgS == DefaultCfg
mcMaxClosed == 2
mcMaxChan == 3
mcMaxK == 1
=============================================================================
