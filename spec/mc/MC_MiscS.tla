------------------------------ MODULE MC_MiscS ------------------------------
(* PING, PRIORITY, ALTSVC and unknown frames on a server, with one request stream.                        *)
EXTENDS Scn
mcRoles == {"s"}
mcCallsC == {}
mcCallsS ==
  {[op |-> "ping", tag |-> "A", n |-> 8], [op |-> "ping", tag |-> "B", n |-> 9],
   [op |-> "prio", sid |-> 1, w |-> <<5>>, dep |-> <<>>, excl |-> <<>>],
   [op |-> "hdr", sid |-> 1, h |-> "resp200", es |-> FALSE, pr |-> <<<<10>>, <<>>, <<>>>>],
   CHdr(1, "resp200", FALSE), CHdr(1, "info100", FALSE),
   [op |-> "alt", fld |-> "f", org |-> <<"o">>, sid |-> <<>>], [op |-> "alt", fld |-> "f", org |-> <<>>, sid |-> <<1>>],
   [op |-> "alt", fld |-> "f", org |-> <<>>, sid |-> <<3>>], [op |-> "alt", fld |-> "f", org |-> <<"o">>, sid |-> <<1>>],
   [op |-> "push", sid |-> 1, pid |-> 2, h |-> "req_get_b"], [op |-> "alt", fld |-> "g", org |-> <<>>, sid |-> <<2>>]}
mcAdvC == {}
mcAdvS ==
  Singles({APing("A", FALSE), APing("B", TRUE), APrio(1, 1, 0, FALSE), APrio(1, 16, 1, FALSE), APrio(9, 200, 1, TRUE),
           AAlt(0, "o", "f"), AAlt(1, "", "f"), AUnknown(1),
           AH(1, "req_get", FALSE), AHP(1, "req_get", TRUE, <<256, 0, FALSE>>), AHP(3, "req_get", FALSE, <<1, 3, FALSE>>),
           AHP(3, "req_nopath", FALSE, <<1, 1, FALSE>>)})
  \cup {<<APing("A", FALSE), APing("Z", FALSE)>>, <<APing("A", FALSE), APing("A", FALSE)>>}
mcSetup == Handshake("s", <<>>)
mcQSids == <<1, 3>>
mcCfgC == DefaultCfg
mcCfgS == DefaultCfg
mcMaxClosed == 2
mcMaxChan == 3
mcMaxK == 1
=============================================================================
