------------------------------ MODULE MC_HdrEnumOutC2 ------------------------------
(* Header lists by enumeration: every list within two edits (the second over 12 fields) of a well-formed base list over an alphabet of 37 header    *)
(* fields (valid and invalid pseudo-headers, upper case, surrounding whitespace, connection-specific fields, TE, Host, cookies,     *)
(* content-length, empty name, non-UTF-8, str-typed fields), sent by a client as request and as trailers.                                                                    *)
EXTENDS Scn
A == {"m_get", "m_head", "m_connect", "scheme", "auth", "auth_b", "auth_empty", "path", "path_empty", "status200", "status100", "status204", "status_abc", "proto", "custom", "xk", "up", "ws_name", "ws_value", "conn", "te_ok", "te_bad", "host_a", "host_b", "host_empty", "cookie_s", "cookie_l", "cl3", "cl_bad", "empty_name", "nonutf8", "authz", "s_xk", "s_method", "up_pseudo", "pad_value", "keepalive"}
A2 == {"m_get", "auth_b", "path_empty", "status200", "xk", "up", "conn", "te_bad", "host_b", "cookie_s", "empty_name", "s_method"}
ReqBase == <<"m_get", "scheme", "auth", "path">>
RespBase == <<"status200", "xk">>
TrlBase == <<"xk">>
E(b) == Edit2(b, A, A2)
mcRoles == {"c"}
mcCallsS == {}
\* request blocks on a new stream; trailer blocks on the open request stream 1
mcCallsC == {CHdrN(3, b, FALSE) : b \in E(ReqBase)} \cup {CHdrN(1, b, TRUE) : b \in E(TrlBase)}
mcAdvS == {}
mcAdvC == {}
mcSetup == Handshake("c", <<>>) \o <<CCall("c", CHdr(1, "req_get", FALSE))>>
mcQSids == <<1, 2>>
mcCfgC == DefaultCfg
mcCfgS == DefaultCfg
mcMaxClosed == 2
mcMaxChan == 3
mcMaxK == 1
=============================================================================
