---------------------------- MODULE MC_HdrOutCNoNorm ----------------------------
(* Outbound header pipeline on a client: every catalogue block as a request on stream 1 (and as trailers /   *)
(* a second request afterwards): normalisation, validation, what reaches the wire, what a failed call leaves. *)
EXTENDS Scn
\* (the sized lists of the catalogue belong to MC_BigC / MC_BigS)
Names == {n \in DOMAIN HL : BL0[n] < 1000}
mcRoles == {"c"}
mcCallsS == {}
mcCallsC ==
  [op : {"hdr"}, sid : {1}, h : Names, es : BOOLEAN, pr : {<<>>}]
  \cup [op : {"hdr"}, sid : {3}, h : {"req_get", "req_messy", "req_te_bad"}, es : {TRUE}, pr : {<<>>}]
mcAdvS == {}
mcAdvC == {}
mcSetup == Handshake("c", <<>>)
mcQSids == <<1, 3>>
mcCfgC == [DefaultCfg EXCEPT !.no = FALSE]     \* the non-default configuration this copy of MC_HdrOutC is about
mcCfgS == DefaultCfg
mcMaxClosed == 2
mcMaxChan == 3
mcMaxK == 1
=============================================================================
