------------------------------ MODULE MC_FrameS ------------------------------
(* Frame-size limits on a server with one request stream open: DATA sent against the peer's MAX_FRAME_SIZE (raised and  *)
(* lowered by the peer), DATA received against the own MAX_FRAME_SIZE (raised by update_settings, in force from the ACK),*)
(* with the ACK and the DATA frame in one receive_data() call or in two.                                                *)
EXTENDS Scn
mcRoles == {"s"}
mcCallsC == {}
mcCallsS ==
  [op : {"set"}, s : {<<<<5, 16385>>>>, <<<<5, 16384>>>>, <<<<5, 16385>>, <<4, 70000>>>>}]
  \cup [op : {"data"}, sid : {1}, n : {16383, 16384, 16385}, tag : {"A"}, es : {FALSE}, pad : {-1, 0}]
  \cup {[op |-> "inc", n |-> 65535, sid |-> <<1>>]}
mcAdvC == {}
mcAdvS ==
  Singles({AAck, AD(1, 16384, FALSE, -1), AD(1, 16385, FALSE, -1), AD(1, 16384, FALSE, 0), ASet(<<<<5, 16385>>>>),
           ASet(<<<<5, 16384>>>>), AWU(0, 65535)})
  \cup {<<AAck, AD(1, 16385, FALSE, -1)>>, <<AAck, AD(1, 16384, FALSE, -1)>>, <<APing("A", FALSE), AD(1, 16385, FALSE, -1), APing("B", FALSE)>>}
mcSetup == Handshake("s", <<>>) \o <<CRecv("s", <<AH(1, "req_get", FALSE)>>), CCall("s", CHdr(1, "resp200", FALSE))>>
mcQSids == <<1>>
mcCfgC == DefaultCfg
mcCfgS == DefaultCfg
mcMaxClosed == 2
mcMaxChan == 3
mcMaxK == 1
=============================================================================
