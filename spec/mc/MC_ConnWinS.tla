---------------------------- MODULE MC_ConnWinS ----------------------------
(* The connection window at its edge (C04): own stream windows of 40000 octets on three request streams, 3 x 16384   *)
(* octets of DATA already received and not acknowledged, so that 16383 octets of connection window are left while     *)
(* every stream window still has room: DATA that fits exactly, DATA one octet over (with and without padding),        *)
(* acknowledgements and manual increments that reopen the window.                                                     *)
EXTENDS Scn
Sids == {1, 3, 5}
mcRoles == {"s"}
mcCallsC == {}
mcCallsS ==
  [op : {"ack"}, n : {16384, 1}, sid : {1, 3}]
  \cup [op : {"inc"}, n : {1}, sid : {<<>>, <<1>>}]
mcAdvC == {}
F_D(sid, n, es, pad) == [t |-> "DATA", sid |-> sid, es |-> es, n |-> n, tag |-> "B", pad |-> pad]
mcAdvS ==
  {<<F_D(sid, n, FALSE, -1)>> : sid \in {1, 3}, n \in {16383, 16384, 1, 0}}
  \cup {<<F_D(1, 0, FALSE, 100)>>, <<F_D(3, 0, TRUE, 0)>>}        \* no payload, only padding: still flow-controlled octets
  \cup {<<F_D(1, 16380, FALSE, 2)>>, <<F_D(1, 16381, FALSE, 2)>>, <<F_D(5, 16383, TRUE, -1)>>, <<F_D(1, 16382, FALSE, -1), F_D(3, 2, FALSE, -1)>>}
  \cup {<<[t |-> "WU", sid |-> 0, inc |-> 5]>>}
mcSetup == <<
  [a |-> "call", x |-> "s", c |-> [op |-> "init"]],
  [a |-> "recv", x |-> "s", fs |-> <<[t |-> "SET", ack |-> FALSE, s |-> <<>>]>>],
  [a |-> "recv", x |-> "s", fs |-> <<[t |-> "SET", ack |-> TRUE, s |-> <<>>]>>],
  [a |-> "call", x |-> "s", c |-> [op |-> "set", s |-> <<<<4, 40000>>>>]],
  [a |-> "recv", x |-> "s", fs |-> <<[t |-> "SET", ack |-> TRUE, s |-> <<>>]>>],
  [a |-> "recv", x |-> "s", fs |-> <<AH(1, "req_get", FALSE)>>],
  [a |-> "recv", x |-> "s", fs |-> <<AH(3, "req_get", FALSE)>>],
  [a |-> "recv", x |-> "s", fs |-> <<AH(5, "req_get", FALSE)>>],
  [a |-> "recv", x |-> "s", fs |-> <<F_D(1, 16384, FALSE, -1)>>],
  [a |-> "recv", x |-> "s", fs |-> <<F_D(3, 16384, FALSE, -1)>>],
  [a |-> "recv", x |-> "s", fs |-> <<F_D(5, 16384, FALSE, -1)>>] >>
mcQSids == <<1, 3, 5>>
mcCfgC == DefaultCfg
mcCfgS == DefaultCfg
mcMaxClosed == 2
mcMaxChan == 3
mcMaxK == 1
=============================================================================
