------------------------------ MODULE MC_PushS ------------------------------
(* Server push on a server: promises with fresh, re-used and odd ids, the promised stream while reserved    *)
(* (peer WINDOW_UPDATE, RST_STREAM, changed INITIAL_WINDOW_SIZE / ENABLE_PUSH / MAX_CONCURRENT_STREAMS),     *)
(* then its response.                                                                                       *)
EXTENDS Scn
mcRoles == {"s"}
mcCallsC == {}
mcCallsS ==
  {[op |-> "push", sid |-> 1, pid |-> 2, h |-> "req_get_b"], [op |-> "push", sid |-> 1, pid |-> 4, h |-> "req_cookies"],
   [op |-> "push", sid |-> 1, pid |-> 3, h |-> "req_get_b"], [op |-> "push", sid |-> 2, pid |-> 4, h |-> "req_get_b"],
   CHdr(2, "resp404", FALSE), CHdr(1, "resp404", TRUE), CHdr(2, "info100", FALSE), CHdr(2, "trl", FALSE), CHdr(2, "trl", TRUE), CData(2, 5, FALSE), CData(2, 2, TRUE),
   [op |-> "rst", sid |-> 2, code |-> 8], [op |-> "oout", sid |-> 1],
   \* priority arguments with the response headers of a stream this server promised itself (C23: only clients may)
   [op |-> "hdr", sid |-> 2, h |-> "resp404", es |-> FALSE, pr |-> <<<<5>>, <<>>, <<>>>>]}
mcAdvC == {}
mcAdvS ==
  Singles({ASet(<<<<4, 3>>>>), ASet(<<<<4, 70000>>>>), ASet(<<<<2, 0>>>>), ASet(<<<<3, 1>>>>), ASet(<<<<3, 0>>>>),
           AWU(2, 5), AWU(2, 2147483647), ARst(2, 8), AD(2, 1, FALSE, -1), AH(2, "resp200", FALSE),
           \* the client sends HEADERS on the pushed (even) stream: while reserved, after it was reset or ended, after it was collected
           AH(2, "req_get", FALSE), AH(2, "trl", TRUE), AH(3, "req_get", TRUE)})
mcSetup == Handshake("s", <<>>) \o <<CRecv("s", <<AH(1, "req_get", FALSE)>>)>>
mcQSids == <<1, 2, 4>>
mcCfgC == DefaultCfg
mcCfgS == DefaultCfg
mcMaxClosed == 2
mcMaxChan == 3
mcMaxK == 1
=============================================================================
