----------------------------- MODULE MC_SetEnumS -----------------------------
(* SETTINGS values by enumeration on a server with one request stream open: every identifier of a boundary-dense set            *)
(* (defined ones, 0, undefined ones up to 2^16-1) with every value of a boundary-dense set (0, 1, 2, around 2^14, around 2^24,   *)
(* 2^31-1, 2^31, 2^32-1; numbers of 2^31 and more are written as negative 32-bit values), received in a SETTINGS frame and      *)
(* given to update_settings, followed by the acknowledgement.                                                                    *)
EXTENDS Scn
mcRoles == {"s"}
mcCallsC == {}
Ids == {0, 1, 2, 3, 4, 5, 6, 7, 8, 9, 255, 256, 260, 65535}
Vals == {0, 1, 2, 100, 16383, 16384, 16385, 65535, 65536, 16777215, 16777216, 2147483647, -2147483647 - 1, -1}
mcCallsS == {[op |-> "set", s |-> <<<<i, v>>>>] : i \in Ids, v \in Vals}
mcAdvC == {}
mcAdvS == {<<ASet(<<<<i, v>>>>)>> : i \in Ids, v \in Vals} \cup {<<AAck>>}
mcSetup == Handshake("s", <<>>) \o <<CRecv("s", <<AH(1, "req_get", FALSE)>>)>>
mcQSids == <<1>>
mcCfgC == DefaultCfg
mcCfgS == DefaultCfg
mcMaxClosed == 2
mcMaxChan == 3
mcMaxK == 1
=============================================================================
