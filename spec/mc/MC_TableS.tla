----------------------------- MODULE MC_TableS -----------------------------
(* HEADER_TABLE_SIZE from the peer, in every order with other SETTINGS frames, acknowledgements and header blocks sent in     *)
(* between (C13: the encoder tells the peer's decoder about every size it starts to use; C11: each frame applied at once).     *)
EXTENDS Scn
mcRoles == {"s"}
mcCallsC == {}
mcCallsS ==
  {CHdr(1, "resp200", FALSE), CHdr(3, "resp200_cl3", FALSE), CHdr(1, "trl", TRUE), [op |-> "set", s |-> <<<<1, 50>>>>],
   [op |-> "set", s |-> <<<<1, 50>>, <<6, 100>>>>]}
mcAdvC == {}
mcAdvS ==
  Singles({ASet(<<<<1, 100>>>>), ASet(<<<<1, 0>>>>), ASet(<<>>), ASet(<<<<3, 5>>>>), ASet(<<<<1, 4096>>>>), ASet(<<<<1, 100>>, <<5, 20000>>>>), AAck,
           AH(5, "req_get_b", TRUE)})
mcSetup == Handshake("s", <<>>) \o <<CRecv("s", <<AH(1, "req_get", TRUE)>>), CRecv("s", <<AH(3, "req_get_b", TRUE)>>)>>
mcQSids == <<1, 3>>
mcCfgC == DefaultCfg
mcCfgS == DefaultCfg
mcMaxClosed == 2
mcMaxChan == 3
mcMaxK == 1
=============================================================================
