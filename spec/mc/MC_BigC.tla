------------------------------- MODULE MC_BigC -------------------------------
(* Header blocks around the frame-size limit on a client: request header lists whose HPACK block is 16379 ... 32768      *)
(* octets long (measured with an independent encoder for the first block of a connection), with and without priority     *)
(* arguments, under the default MAX_FRAME_SIZE and under limits the peer announces; the frame sizes are compared.         *)
EXTENDS Scn
mcRoles == {"c"}
mcCallsS == {}
Bigs == {"req_big_16379", "req_big_16380", "req_big_16383", "req_big_16384", "req_big_16385", "req_big_32768", "req_get"}
mcCallsC ==
  {[op |-> "hdr", sid |-> 1, h |-> h, es |-> TRUE, pr |-> pr, sz |-> TRUE] : h \in Bigs, pr \in {<<>>, <<<<5>>, <<>>, <<>>>>}}
  \cup {[op |-> "data", sid |-> 1, n |-> 1, tag |-> "A", es |-> TRUE, pad |-> -1]}
mcAdvS == {}
mcAdvC == Singles({ASet(<<<<5, 16385>>>>), ASet(<<<<5, 32768>>>>), ASet(<<<<5, 16384>>>>), APing("A", FALSE)})
mcSetup == Handshake("c", <<>>)
mcQSids == <<1>>
mcCfgC == DefaultCfg
mcCfgS == DefaultCfg
mcMaxClosed == 2
mcMaxChan == 3
mcMaxK == 1
=============================================================================
