------------------------------ MODULE MC_Pair2 ------------------------------
(* Client and server back to back with a push in flight: the client changes INITIAL_WINDOW_SIZE / resets    *)
(* while the server answers on the request stream and on the promised stream.                                *)
EXTENDS Scn
mcRoles == {"c", "s"}
mcCallsC ==
  {[op |-> "set", s |-> <<<<4, 3>>>>], [op |-> "rst", sid |-> 2, code |-> 8], [op |-> "ack", sid |-> 2, n |-> 2]}
mcCallsS ==
  {CHdr(2, "resp200", FALSE), CData(2, 5, FALSE), CData(2, 2, TRUE), CHdr(1, "resp200", TRUE)}
mcAdvC == {}
mcAdvS == {}
mcSetup == PairHandshake \o <<CCall("c", CHdr(1, "req_get", TRUE)), CDlv("s", 1),
                              CCall("s", [op |-> "push", sid |-> 1, pid |-> 2, h |-> "req_get_b"])>>
mcQSids == <<1, 2>>
mcCfgC == DefaultCfg
mcCfgS == DefaultCfg
mcMaxClosed == 2
mcMaxChan == 4
mcMaxK == 2
=============================================================================
