------------------------------ MODULE MC_FlowS ------------------------------
(* Flow control on a server with two request streams open: outbound DATA against the peer's   *)
(* windows (C03) and inbound DATA / manual and automatic window management (C04, C05).       *)
(* Peer INITIAL_WINDOW_SIZE 10, own INITIAL_WINDOW_SIZE 8 (acknowledged in the setup).        *)
EXTENDS Scn

Sids == {1, 3}
mcRoles == {"s"}
mcCallsC == {}
mcCallsS ==
  [op : {"data"}, sid : Sids, n : {1, 4, 10}, tag : {"A"}, es : {FALSE}, pad : {-1, 0, 2}]
  \cup [op : {"data"}, sid : {1}, n : {0}, tag : {"A"}, es : {TRUE}, pad : {-1}]
  \cup [op : {"data"}, sid : {3, 5}, n : {0}, tag : {"A"}, es : {FALSE}, pad : {-1}]       \* nothing to send: on a live stream, on a never-used id
  \cup [op : {"inc"}, n : {3}, sid : {<<>>, <<1>>}]
  \cup [op : {"ack"}, n : {2, 4}, sid : {1, 3}]
  \cup [op : {"ack"}, n : {4}, sid : {5}]          \* a never-used stream id
  \cup [op : {"set"}, s : {<<<<4, 4>>>>, <<<<4, 12>>>>}]
mcAdvC == {}
F_D(sid, n, es, pad) == [t |-> "DATA", sid |-> sid, es |-> es, n |-> n, tag |-> "B", pad |-> pad]
mcAdvS ==
  {<<F_D(sid, n, FALSE, pad)>> : sid \in Sids, n \in {2, 4}, pad \in {-1, 1}}
  \cup {<<F_D(1, 0, FALSE, 3)>>, <<F_D(3, 0, TRUE, 0)>>}       \* no payload, only padding: still flow-controlled octets
  \cup {<<[t |-> "WU", sid |-> sid, inc |-> n]>> : sid \in {0, 1}, n \in {5}}
  \cup {<<[t |-> "SET", ack |-> FALSE, s |-> <<<<4, v>>>>]>> : v \in {2, 20}}
  \cup {<<[t |-> "SET", ack |-> TRUE, s |-> <<>>]>>}
mcSetup == <<
  [a |-> "call", x |-> "s", c |-> [op |-> "init"]],
  [a |-> "recv", x |-> "s", fs |-> <<[t |-> "SET", ack |-> FALSE, s |-> <<<<4, 10>>>>]>>],
  [a |-> "recv", x |-> "s", fs |-> <<[t |-> "SET", ack |-> TRUE, s |-> <<>>]>>],
  [a |-> "call", x |-> "s", c |-> [op |-> "set", s |-> <<<<4, 8>>>>]],
  [a |-> "recv", x |-> "s", fs |-> <<[t |-> "SET", ack |-> TRUE, s |-> <<>>]>>],
  [a |-> "recv", x |-> "s", fs |-> <<[t |-> "HEADERS", sid |-> 1, es |-> FALSE, h |-> "req_post_cl3", pr |-> <<>>, blk |-> "ok"]>>],
  [a |-> "recv", x |-> "s", fs |-> <<[t |-> "HEADERS", sid |-> 3, es |-> FALSE, h |-> "req_get", pr |-> <<>>, blk |-> "ok"]>>],
  [a |-> "call", x |-> "s", c |-> [op |-> "hdr", sid |-> 1, h |-> "resp200", es |-> FALSE, pr |-> <<>>]],
  [a |-> "call", x |-> "s", c |-> [op |-> "hdr", sid |-> 3, h |-> "resp200", es |-> FALSE, pr |-> <<>>]] >>
mcQSids == <<1, 3>>
mcCfgC == DefaultCfg
mcCfgS == DefaultCfg
mcMaxClosed == 2
mcMaxChan == 3
mcMaxK == 1
=============================================================================
