------------------------------ MODULE MC_MiscC ------------------------------
(* PING, PRIORITY, ALTSVC, unknown frames and GOAWAY on a client, interleaved with one request.           *)
EXTENDS Scn
mcRoles == {"c"}
mcCallsS == {}
mcCallsC ==
  {[op |-> "ping", tag |-> "A", n |-> 8], [op |-> "ping", tag |-> "Z", n |-> 8], [op |-> "ping", tag |-> "A", n |-> 7],
   [op |-> "prio", sid |-> 1, w |-> <<>>, dep |-> <<>>, excl |-> <<>>], [op |-> "prio", sid |-> 1, w |-> <<256>>, dep |-> <<3>>, excl |-> <<TRUE>>],
   [op |-> "prio", sid |-> 3, w |-> <<257>>, dep |-> <<>>, excl |-> <<>>], [op |-> "prio", sid |-> 3, w |-> <<0>>, dep |-> <<>>, excl |-> <<>>],
   [op |-> "prio", sid |-> 5, w |-> <<1>>, dep |-> <<5>>, excl |-> <<>>], [op |-> "prio", sid |-> 3, w |-> <<1>>, dep |-> <<>>, excl |-> <<>>],
   [op |-> "hdr", sid |-> 3, h |-> "req_get", es |-> FALSE, pr |-> <<<<1>>, <<>>, <<>>>>], CHdr(1, "trl", TRUE),
   [op |-> "hdr", sid |-> 1, h |-> "req_get", es |-> FALSE, pr |-> <<<<10>>, <<>>, <<>>>>],
   [op |-> "hdr", sid |-> 1, h |-> "req_get", es |-> TRUE, pr |-> <<<<>>, <<1>>, <<>>>>],
   [op |-> "hdr", sid |-> 3, h |-> "req_head", es |-> TRUE, pr |-> <<<<300>>, <<>>, <<FALSE>>>>],
   [op |-> "hdr", sid |-> 3, h |-> "req_get", es |-> TRUE, pr |-> <<<<>>, <<>>, <<TRUE>>>>],
   [op |-> "alt", fld |-> "f", org |-> <<"o">>, sid |-> <<>>], [op |-> "alt", fld |-> "f", org |-> <<>>, sid |-> <<1>>],
   [op |-> "alt", fld |-> "f", org |-> <<"o">>, sid |-> <<1>>]}
mcAdvS == {}
mcAdvC ==
  Singles({APing("A", FALSE), APing("Z", FALSE), APing("B", TRUE), APing("Z", TRUE),
           APrio(1, 1, 0, FALSE), APrio(7, 256, 1, TRUE), APrio(1, 16, 1, FALSE), APrio(0, 5, 2, FALSE),
           AAlt(0, "o.example", "h2=\":443\""), AAlt(0, "", "f"), AAlt(1, "", "f1"), AAlt(1, "o", "f2"), AAlt(3, "", "f3"),
           AUnknown(0), AUnknown(1), AH(1, "resp200", FALSE), AHP(1, "resp200", FALSE, <<7, 0, TRUE>>), AHP(1, "resp200", FALSE, <<7, 1, FALSE>>),
           AGoAway(1, 0)})
  \cup {<<APing("A", FALSE), APing("B", FALSE)>>, <<APing("A", FALSE), APing("B", TRUE), APing("Z", FALSE)>>,
        <<APing("A", FALSE), APing("A", FALSE)>>}          \* the same payload twice: two answers
mcSetup == Handshake("c", <<>>)
mcQSids == <<1, 3>>
mcCfgC == DefaultCfg
mcCfgS == DefaultCfg
mcMaxClosed == 2
mcMaxChan == 3
mcMaxK == 1
=============================================================================
