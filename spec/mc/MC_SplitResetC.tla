--------------------------- MODULE MC_SplitResetC ---------------------------
(* A header block of the peer split over HEADERS / PUSH_PROMISE and CONTINUATION frames that arrive in different inputs, with  *)
(* the application resetting the stream (or collecting closed streams, or opening another stream) in between (C20: the racing  *)
(* block still reaches the decoder and never breaks the connection).                                                          *)
EXTENDS Scn
mcRoles == {"c"}
mcCallsS == {}
mcCallsC == {[op |-> "rst", sid |-> 1, code |-> 8], [op |-> "rst", sid |-> 3, code |-> 8], [op |-> "oout", sid |-> 1], CHdr(5, "req_get", TRUE)}
mcAdvS == {}
H(fl, sid, len, pad, bl, apad) == ARaw(1, fl, sid, len, [pad |-> pad, pr |-> <<7, 0, TRUE>>, bl |-> bl, apad |-> apad])
P(fl, sid, len, pad, pid, bl, apad) == ARaw(5, fl, sid, len, [pad |-> pad, pid |-> pid, bl |-> bl, apad |-> apad])
C(fl, sid, len) == ARaw(9, fl, sid, len, [bl |-> len])
mcAdvC ==
  Singles({H(0, 1, 1, -1, 1, 0), P(0, 1, 5, -1, 2, 1, 0), C(4, 1, 1), C(0, 1, 1), C(4, 3, 1), AH(3, "resp200", TRUE), AH(1, "resp200", FALSE)})
mcSetup == Handshake("c", <<>>) \o <<CCall("c", CHdr(1, "req_get", FALSE)), CCall("c", CHdr(3, "req_get_b", TRUE))>>
mcQSids == <<1, 2, 3>>
mcCfgC == DefaultCfg
mcCfgS == DefaultCfg
mcMaxClosed == 2
mcMaxChan == 3
mcMaxK == 1
=============================================================================
