------------------------------ MODULE MC_SetC ------------------------------
(* Settings on a client: the peer's MAX_CONCURRENT_STREAMS / ENABLE_PUSH / INITIAL_WINDOW_SIZE against    *)
(* opening streams, pushes and sends; own settings changes with ACKs anywhere.                            *)
EXTENDS Scn
mcRoles == {"c"}
mcCallsS == {}
mcCallsC ==
  [op : {"set"}, s : {<<<<2, 0>>>>, <<<<2, 1>>>>, <<<<3, 1>>>>, <<<<4, 6>>>>, <<<<4, 6>>, <<2, 0>>>>, <<<<2, 5>>>>, <<<<260, 7>>>>}]
  \cup [op : {"hdr"}, sid : {1, 3, 5}, h : {"req_get"}, es : BOOLEAN, pr : {<<>>}]
  \cup [op : {"data"}, sid : {1}, n : {4}, tag : {"A"}, es : {FALSE}, pad : {-1}]
  \cup [op : {"oout"}, sid : {1}]
mcAdvS == {}
mcAdvC ==
  Singles({AAck, ASet(<<<<3, 1>>>>), ASet(<<<<3, 2>>>>), ASet(<<<<3, 0>>>>), ASet(<<<<4, 3>>>>), ASet(<<<<4, 70000>>>>),
           ASet(<<<<2, 1>>>>), ASet(<<<<1, 0>>, <<1, 4096>>>>),
           APP(1, 2, "req_get_b"), AH(1, "resp200", TRUE), AH(2, "resp200", FALSE), ARst(1, 0), AWU(1, 5)})
mcSetup == Handshake("c", <<>>)
mcQSids == <<1, 2, 3>>
mcCfgC == DefaultCfg
mcCfgS == DefaultCfg
mcMaxClosed == 2
mcMaxChan == 3
mcMaxK == 1
=============================================================================
