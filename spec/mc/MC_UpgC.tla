------------------------------- MODULE MC_UpgC -------------------------------
(* h2c upgrade on a client facing a harness peer: the returned HTTP2-Settings value (also with a settings change made    *)
(* before the upgrade), the response / push / DATA on stream 1, no request body on stream 1, the next stream is 3.       *)
EXTENDS Scn
mcRoles == {"c"}
mcCallsS == {}
mcCallsC ==
  {CUpg("none", <<>>), CUpg("lit", <<<<4, 10>>>>), CInit("c").c, [op |-> "set", s |-> <<<<4, 100>>, <<2, 0>>>>],
   CHdr(1, "req_get", TRUE), CHdr(3, "req_get", TRUE), CHdr(5, "req_get", FALSE), CData(1, 2, TRUE), [op |-> "end", sid |-> 1],
   [op |-> "rst", sid |-> 1, code |-> 8], [op |-> "ack", n |-> 3, sid |-> 1], [op |-> "oout", sid |-> 1]}
mcAdvS == {}
mcAdvC ==
  Singles({ASet(<<>>), AAck, AH(1, "resp200", FALSE), AH(1, "info100", FALSE), AH(1, "resp204", TRUE), AD(1, 3, FALSE, -1),
           AD(1, 3, TRUE, 0), APP(1, 2, "req_get_b"), AH(1, "trl", TRUE), ARst(1, 2), AAlt(1, "", "h2=\":8\"")})
mcSetup == <<>>
mcQSids == <<1, 2, 3>>
mcCfgC == DefaultCfg
mcCfgS == DefaultCfg
mcMaxClosed == 2
mcMaxChan == 3
mcMaxK == 1
=============================================================================
