------------------------------ MODULE MC_LenC ------------------------------
(* Content-Length on a client: responses with and without content-length to a GET (stream 1) and a HEAD     *)
(* (stream 3), DATA frames of several sizes with and without padding and END_STREAM.                         *)
EXTENDS Scn
mcRoles == {"c"}
mcCallsC == {}
mcCallsS == {}
mcAdvS == {}
mcAdvC ==
  {<<AH(sid, h, es)>> : sid \in {1, 3}, h \in {"resp200_cl3", "resp200_cl0", "resp200", "info100_cl3", "resp_cl_bad", "resp_cl_neg", "trl", "resp204_cl3", "resp304_cl3", "resp204"}, es \in BOOLEAN}
  \cup {<<AD(sid, n, es, pad)>> : sid \in {1, 3}, n \in {0, 2, 3}, es \in BOOLEAN, pad \in {-1, 1}}
mcSetup == Handshake("c", <<>>) \o <<CCall("c", CHdr(1, "req_get", TRUE)), CCall("c", CHdr(3, "req_head", TRUE))>>
\* (MC_LenC2: a HEAD request followed by request trailers)
mcQSids == <<1, 3>>
mcCfgC == DefaultCfg
mcCfgS == DefaultCfg
mcMaxClosed == 2
mcMaxChan == 3
mcMaxK == 1
=============================================================================
