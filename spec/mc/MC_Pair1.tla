------------------------------ MODULE MC_Pair1 ------------------------------
(* Client and server connected back to back: requests, responses, pushes, pings, resets. *)
EXTENDS Scn

mcRoles == {"c", "s"}
mcCallsC ==
  [op : {"hdr"}, sid : {1, 3}, h : {"req_get", "req_messy"}, es : BOOLEAN, pr : {<<>>}]
  \cup [op : {"data"}, sid : {1}, n : {3}, tag : {"A"}, es : BOOLEAN, pad : {-1, 2}]
  \cup [op : {"rst"}, sid : {1, 2}, code : {8}]
  \cup [op : {"ping"}, tag : {"A"}, n : {8}]
mcCallsS ==
  [op : {"hdr"}, sid : {1, 2}, h : {"resp200", "info100", "trl"}, es : BOOLEAN, pr : {<<>>}]
  \cup [op : {"data"}, sid : {1, 2}, n : {2}, tag : {"B"}, es : BOOLEAN, pad : {-1}]
  \cup [op : {"push"}, sid : {1}, pid : {2}, h : {"req_get_b"}]
  \cup [op : {"rst"}, sid : {1}, code : {2}]
mcAdvC == {}
mcAdvS == {}
mcSetup == <<
  [a |-> "call", x |-> "c", c |-> [op |-> "init"]],
  [a |-> "call", x |-> "s", c |-> [op |-> "init"]],
  [a |-> "dlv", x |-> "s", k |-> 1],
  [a |-> "dlv", x |-> "c", k |-> 2],
  [a |-> "dlv", x |-> "s", k |-> 1] >>
mcQSids == <<1, 2, 3>>
mcCfgC == DefaultCfg
mcCfgS == DefaultCfg
mcMaxClosed == 2
mcMaxChan == 3
mcMaxK == 2
=============================================================================
