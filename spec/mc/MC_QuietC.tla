------------------------------ MODULE MC_QuietC ------------------------------
(* C19, last sentence, on a client: requests and bodies left in the buffer, then every route to a closed connection.       *)
EXTENDS Scn
mcRoles == {"c"}
mcCallsS == {}
mcCallsC ==
  {Held(CHdr(1, "req_post_cl3", FALSE)), CHdr(1, "req_post_cl3", FALSE), Held(CData(1, 3, TRUE)), Held(CHdr(3, "req_get", TRUE)),
   Held([op |-> "close", code |-> 0, last |-> <<>>, tag |-> <<>>]), [op |-> "close", code |-> 0, last |-> <<>>, tag |-> <<>>],
   Held([op |-> "rst", sid |-> 1, code |-> 8]), Held([op |-> "set", s |-> <<<<3, 5>>>>]), [op |-> "ping", tag |-> "B", n |-> 8]}
mcAdvS == {}
mcAdvC ==
  Singles({AGoAway(0, 0), AGoAway(3, 2), APing("A", FALSE), AH(2, "req_get", FALSE), AH(1, "resp200", FALSE), AAck, ASet(<<<<4, 100>>>>)})
  \cup {<<ASet(<<<<4, 100>>>>), AGoAway(0, 0)>>}
mcSetup == Handshake("c", <<>>)
mcQSids == <<1, 3>>
mcCfgC == DefaultCfg
mcCfgS == DefaultCfg
mcMaxClosed == 2
mcMaxChan == 3
mcMaxK == 1
=============================================================================
