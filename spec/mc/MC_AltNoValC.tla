--------------------------- MODULE MC_AltNoValC ---------------------------
(* A client with outbound header validation switched off: request lists the validation would refuse (a regular field in front *)
(* of :authority, no :authority at all) go out, and stream-bound ALTSVC frames then report the origin the request named (C24). *)
EXTENDS Scn
mcRoles == {"c"}
mcCallsS == {}
mcCallsC ==
  {CHdr(1, "req_lateauth", FALSE), CHdr(1, "req_get", FALSE), CHdr(3, "req_noauth", FALSE), CHdr(3, "req_host_only", TRUE),
   CHdr(1, "trl", TRUE), [op |-> "alt", fld |-> "g", org |-> <<"o">>, sid |-> <<>>]}
mcAdvS == {}
mcAdvC ==
  Singles({AAlt(1, "", "h2=\":8\""), AAlt(3, "", "h2=\":8\""), AAlt(0, "o.example", "h2=\":443\""), AAlt(1, "o", "f"),
           AH(1, "resp200", FALSE), AH(3, "info100", FALSE)})
mcSetup == Handshake("c", <<>>)
mcQSids == <<1, 3>>
mcCfgC == [DefaultCfg EXCEPT !.vo = FALSE]
mcCfgS == DefaultCfg
mcMaxClosed == 2
mcMaxChan == 3
mcMaxK == 1
=============================================================================
