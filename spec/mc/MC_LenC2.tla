------------------------------ MODULE MC_LenC2 ------------------------------
(* Content-length of responses to a HEAD request that was followed by request trailers, and of 204 / 304 responses.        *)
EXTENDS Scn
mcRoles == {"c"}
mcCallsC == {CHdr(1, "trl", TRUE)}
mcCallsS == {}
mcAdvS == {}
mcAdvC ==
  {<<AH(1, h, es)>> : h \in {"resp200_cl3", "resp200", "resp304_cl3", "info100_cl3"}, es \in BOOLEAN}
  \cup {<<AD(1, n, es, -1)>> : n \in {0, 3}, es \in BOOLEAN}
mcSetup == Handshake("c", <<>>) \o <<CCall("c", CHdr(1, "req_head", FALSE))>>
mcQSids == <<1>>
mcCfgC == DefaultCfg
mcCfgS == DefaultCfg
mcMaxClosed == 2
mcMaxChan == 3
mcMaxK == 1
=============================================================================
