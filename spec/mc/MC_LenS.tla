------------------------------ MODULE MC_LenS ------------------------------
(* Content-Length on a server: requests announcing 3 or 0 bytes or nothing, DATA of several sizes with and  *)
(* without padding and END_STREAM, trailers.                                                                 *)
EXTENDS Scn
mcRoles == {"s"}
mcCallsC == {}
mcCallsS == {}
mcAdvC == {}
mcAdvS ==
  {<<AH(1, h, es)>> : h \in {"req_post_cl3", "req_post_cl0", "req_get", "req_head", "trl"}, es \in BOOLEAN}
  \cup {<<AD(1, n, es, pad)>> : n \in {0, 1, 2, 3}, es \in BOOLEAN, pad \in {-1, 1}}
mcSetup == Handshake("s", <<>>)
mcQSids == <<1, 3>>
mcCfgC == DefaultCfg
mcCfgS == DefaultCfg
mcMaxClosed == 2
mcMaxChan == 3
mcMaxK == 1
=============================================================================
