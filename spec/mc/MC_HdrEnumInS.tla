------------------------------ MODULE MC_HdrEnumInS ------------------------------
(* Header lists by enumeration: every list within one edit of a well-formed base list over an alphabet of 37 header    *)
(* fields (valid and invalid pseudo-headers, upper case, surrounding whitespace, connection-specific fields, TE, Host, cookies,     *)
(* content-length, empty name, non-UTF-8, str-typed fields), received by a server as request and as trailers.                                                                    *)
EXTENDS Scn
A == {"m_get", "m_head", "m_connect", "scheme", "auth", "auth_b", "auth_empty", "path", "path_empty", "status200", "status100", "status204", "status_abc", "proto", "custom", "xk", "up", "ws_name", "ws_value", "conn", "te_ok", "te_bad", "host_a", "host_b", "host_empty", "cookie_s", "cookie_l", "cl3", "cl_bad", "empty_name", "nonutf8", "authz", "s_xk", "s_method", "up_pseudo", "pad_value", "keepalive"}
A2 == {"m_get", "auth_b", "path_empty", "status200", "xk", "up", "conn", "te_bad", "host_b", "cookie_s", "empty_name", "s_method"}
ReqBase == <<"m_get", "scheme", "auth", "path">>
RespBase == <<"status200", "xk">>
TrlBase == <<"xk">>
E(b) == Edit1(b, A)
mcRoles == {"s"}
mcCallsC == {}
mcCallsS == {}
mcAdvC == {}
\* request blocks on a new stream; trailer blocks on the open request stream 1
mcAdvS == {<<AHN(3, b, FALSE)>> : b \in E(ReqBase)} \cup {<<AHN(1, b, TRUE)>> : b \in E(TrlBase)}
mcSetup == Handshake("s", <<>>) \o <<CRecv("s", <<AH(1, "req_get", FALSE)>>)>>
mcQSids == <<1, 2>>
mcCfgC == DefaultCfg
mcCfgS == DefaultCfg
mcMaxClosed == 2
mcMaxChan == 3
mcMaxK == 1
=============================================================================
