------------------------------ MODULE MC_QuietS ------------------------------
(* C19, last sentence: output the application has not taken yet.  A server whose calls leave their frames in the buffer   *)
(* (Held), closed by close_connection, by a connection error or by a received GOAWAY, in every order, and then asked for   *)
(* its output.                                                                                                            *)
EXTENDS Scn
mcRoles == {"s"}
mcCallsC == {}
mcCallsS ==
  {Held(CHdr(1, "resp200", FALSE)), Held(CData(1, 2, FALSE)), Held([op |-> "close", code |-> 0, last |-> <<>>, tag |-> <<>>]),
   [op |-> "close", code |-> 2, last |-> <<>>, tag |-> <<>>], Held([op |-> "ping", tag |-> "A", n |-> 8]),
   [op |-> "ping", tag |-> "B", n |-> 8], Held([op |-> "inc", n |-> 5, sid |-> <<>>]), [op |-> "oin", sid |-> 1]}
mcAdvC == {}
mcAdvS ==
  Singles({AGoAway(0, 0), AGoAway(1, 8), APing("A", FALSE), AD(5, 1, FALSE, -1), AD(1, 3, TRUE, -1), AAck})
  \cup {<<APing("A", FALSE), AGoAway(0, 0)>>, <<AGoAway(0, 0), APing("A", FALSE)>>}
mcSetup == Handshake("s", <<>>) \o <<CRecv("s", <<AH(1, "req_post_cl3", FALSE)>>)>>
mcQSids == <<1>>
mcCfgC == DefaultCfg
mcCfgS == DefaultCfg
mcMaxClosed == 2
mcMaxChan == 3
mcMaxK == 1
=============================================================================
