---------------------------- MODULE MC_HdrInSNoVal ----------------------------
(* Inbound header validation on a server: every catalogue block as request HEADERS (then again as trailers  *)
(* or as a second request), including undecodable and oversized blocks.                                     *)
EXTENDS Scn
\* (the sized lists of the catalogue belong to MC_BigC / MC_BigS)
Names == {n \in DOMAIN HL : BL0[n] < 1000}
mcRoles == {"s"}
mcCallsC == {}
mcCallsS == {}
mcAdvC == {}
mcAdvS ==
  {<<AH(1, h, es)>> : h \in Names, es \in BOOLEAN}
  \cup {<<AH(3, h, TRUE)>> : h \in {"req_get", "req_upper", "req_cookies", "req_emptyname"}}
  \cup {<<AHB(3, "req_get", FALSE, blk)>> : blk \in {"bad", "big"}}
mcSetup == Handshake("s", <<>>)
mcQSids == <<1, 3>>
mcCfgC == DefaultCfg
mcCfgS == [DefaultCfg EXCEPT !.vi = FALSE]     \* the non-default configuration this copy of MC_HdrInS is about
mcMaxClosed == 2
mcMaxChan == 3
mcMaxK == 1
=============================================================================
