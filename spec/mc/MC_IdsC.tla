------------------------------- MODULE MC_IdsC -------------------------------
(* Stream identifiers at the 2^31-1 boundary on a client: requests on user-chosen ids up to 2^31-1 and beyond (numbers of   *)
(* 2^31 and more are written as negative 32-bit values), get_next_available_stream_id, peer frames on the highest ids.      *)
EXTENDS Scn
mcRoles == {"c"}
mcCallsS == {}
Big == {2147483645, 2147483647, -2147483647, -2147483645}      \* 2^31-3, 2^31-1, 2^31+1, 2^31+3
mcCallsC ==
  {[op |-> "hdr", sid |-> sid, h |-> "req_get", es |-> es, pr |-> <<>>] : sid \in Big \cup {1, 3, 2147483646}, es \in BOOLEAN}
  \cup {[op |-> "next"], [op |-> "data", sid |-> 2147483647, n |-> 1, tag |-> "A", es |-> TRUE, pad |-> -1],
        [op |-> "rst", sid |-> -2147483647, code |-> 8], [op |-> "prio", sid |-> 2147483647, w |-> <<5>>, dep |-> <<>>, excl |-> <<>>]}
mcAdvS == {}
mcAdvC == Singles({AH(2147483647, "resp200", TRUE), AH(1, "resp200", TRUE), APP(1, 2147483646, "req_get_b"), ARst(2147483647, 2),
                   AH(2147483646, "resp200", FALSE), APrio(2147483647, 3, 0, FALSE)})
mcSetup == Handshake("c", <<>>)
mcQSids == <<1, 2147483647>>
mcCfgC == DefaultCfg
mcCfgS == DefaultCfg
mcMaxClosed == 2
mcMaxChan == 3
mcMaxK == 1
=============================================================================
