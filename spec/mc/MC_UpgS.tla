------------------------------- MODULE MC_UpgS -------------------------------
(* h2c upgrade on a server facing a harness peer: HTTP2-Settings values (absent, valid, boundary and invalid ones), then  *)
(* the response on stream 1, frames on stream 1 (which is half-closed remote), new request streams.                      *)
EXTENDS Scn
mcRoles == {"s"}
mcCallsC == {}
mcCallsS ==
  {CUpg("none", <<>>), CUpg("lit", <<<<4, 10>>, <<3, 1>>, <<2, 0>>>>), CUpg("lit", <<<<1, 0>>, <<5, 16385>>, <<6, 100>>>>),
   CUpg("lit", <<<<2, 2>>>>), CUpg("lit", <<<<4, 10>>, <<5, 1>>>>), CUpg("lit", <<<<4, -1>>>>), CUpg("lit", <<<<66, 5>>>>),
   CInit("s").c, CHdr(1, "resp200", FALSE), CHdr(1, "resp200", TRUE), CData(1, 4, FALSE), CData(1, 11, TRUE),
   [op |-> "push", sid |-> 1, pid |-> 2, h |-> "req_get_b"], [op |-> "inc", n |-> 5, sid |-> <<1>>], [op |-> "oin", sid |-> 1]}
mcAdvC == {}
mcAdvS ==
  Singles({ASet(<<>>), AAck, AD(1, 1, FALSE, -1), AH(1, "trl", TRUE), AH(1, "req_get", FALSE), AH(3, "req_get", TRUE),
           ARst(1, 8), AWU(1, 5), APrio(1, 3, 0, FALSE)})
mcSetup == <<>>
mcQSids == <<1, 2, 3>>
mcCfgC == DefaultCfg
mcCfgS == DefaultCfg
mcMaxClosed == 2
mcMaxChan == 3
mcMaxK == 1
=============================================================================
