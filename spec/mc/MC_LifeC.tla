------------------------------ MODULE MC_LifeC ------------------------------
(* A client facing a harness-driven server: requests on 1 and 3, responses, pushes on 2. *)
EXTENDS Scn

Sids == {1, 3}
mcRoles == {"c"}
mcCallsS == {}
mcCallsC ==
  [op : {"hdr"}, sid : Sids, h : {"req_get", "trl"}, es : BOOLEAN, pr : {<<>>}]
  \cup [op : {"data"}, sid : {1}, n : {3}, tag : {"A"}, es : BOOLEAN, pad : {-1}]
  \cup [op : {"end"}, sid : {1}]
  \cup [op : {"rst"}, sid : {1, 2}, code : {8}]
  \cup [op : {"oout"}, sid : {1}]
mcAdvS == {}
F_H(sid, h, es) == [t |-> "HEADERS", sid |-> sid, es |-> es, h |-> h, pr |-> <<>>, blk |-> "ok"]
F_D(sid, n, es) == [t |-> "DATA", sid |-> sid, es |-> es, n |-> n, tag |-> "B", pad |-> -1]
mcAdvC ==
  {<<F_H(sid, h, es)>> : sid \in {1, 2}, h \in {"resp200", "info100", "trl"}, es \in BOOLEAN}
  \cup {<<F_D(sid, 2, es)>> : sid \in {1, 2}, es \in BOOLEAN}
  \cup {<<[t |-> "RST", sid |-> sid, code |-> 8]>> : sid \in {1, 2}}
  \cup {<<[t |-> "WU", sid |-> sid, inc |-> 5]>> : sid \in {1, 2}}
  \cup {<<AWU(1, 2147483647)>>, <<AD(1, 2, FALSE, 3)>>}        \* window overflow; padded DATA
  \* header blocks with priority fields, with and without END_STREAM (the related events of C07)
  \cup {<<AHP(1, h, es, <<5, 0, FALSE>>)>> : h \in {"resp200", "trl"}, es \in BOOLEAN}
  \cup {<<[t |-> "PP", sid |-> sid, pid |-> 2, h |-> "req_get_b", blk |-> "ok"]>> : sid \in {1, 3}}
mcSetup == <<
  [a |-> "call", x |-> "c", c |-> [op |-> "init"]],
  [a |-> "recv", x |-> "c", fs |-> <<[t |-> "SET", ack |-> FALSE, s |-> <<<<4, 10>>>>]>>],
  [a |-> "recv", x |-> "c", fs |-> <<[t |-> "SET", ack |-> TRUE, s |-> <<>>]>>] >>
mcQSids == <<1, 2, 3>>
mcCfgC == DefaultCfg
mcCfgS == DefaultCfg
mcMaxClosed == 2
mcMaxChan == 3
mcMaxK == 1
=============================================================================
