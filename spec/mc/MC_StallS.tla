------------------------------ MODULE MC_StallS ------------------------------
(* Automatic window management on a server with one request stream and small windows: DATA of 1..3 octets, partial and    *)
(* full acknowledgements, and local INITIAL_WINDOW_SIZE changes (up and down, acknowledged by the peer at any point).       *)
EXTENDS Scn
mcRoles == {"s"}
mcCallsC == {}
mcCallsS ==
  [op : {"ack"}, n : {1, 2, 3}, sid : {1}]
  \cup [op : {"set"}, s : {<<<<4, 1>>>>, <<<<4, 2>>>>, <<<<4, 3>>>>, <<<<4, 8>>>>, <<<<4, 0>>>>}]
mcAdvC == {}
mcAdvS == Singles({AD(1, 1, FALSE, -1), AD(1, 2, FALSE, -1), AD(1, 3, FALSE, -1), AD(1, 1, FALSE, 0), AAck})
mcSetup == Handshake("s", <<>>) \o <<CCall("s", [op |-> "set", s |-> <<<<4, 8>>>>]), CRecv("s", <<AAck>>),
                                     CRecv("s", <<AH(1, "req_post_cl3", FALSE)>>)>>
mcQSids == <<1>>
mcCfgC == DefaultCfg
mcCfgS == DefaultCfg
mcMaxClosed == 2
mcMaxChan == 3
mcMaxK == 1
=============================================================================
