------------------------------ MODULE MC_LifeS ------------------------------
(* A server facing a harness-driven client: stream life cycle on two client streams. *)
EXTENDS Scn

Sids == {1, 3}
mcRoles == {"s"}
mcCallsC == {}
mcCallsS ==
  [op : {"hdr"}, sid : Sids, h : {"resp200", "info100", "trl"}, es : BOOLEAN, pr : {<<>>}]
  \cup [op : {"data"}, sid : Sids, n : {3}, tag : {"A"}, es : BOOLEAN, pad : {-1}]
  \cup [op : {"end", "oin"}, sid : Sids]
  \cup [op : {"rst"}, sid : Sids, code : {8}]
mcAdvC == {}
F_H(sid, h, es) == [t |-> "HEADERS", sid |-> sid, es |-> es, h |-> h, pr |-> <<>>, blk |-> "ok"]
F_D(sid, n, es) == [t |-> "DATA", sid |-> sid, es |-> es, n |-> n, tag |-> "B", pad |-> -1]
mcAdvS ==
  {<<F_H(sid, h, es)>> : sid \in Sids, h \in {"req_get", "trl"}, es \in BOOLEAN}
  \cup {<<F_D(sid, 2, es)>> : sid \in Sids, es \in BOOLEAN}
  \cup {<<[t |-> "RST", sid |-> sid, code |-> 8]>> : sid \in Sids}
  \cup {<<[t |-> "WU", sid |-> sid, inc |-> 5]>> : sid \in Sids \cup {0}}
  \cup {<<AWU(1, 2147483647)>>, <<AD(1, 2, FALSE, 3)>>}        \* window overflow; padded DATA
mcSetup == <<
  [a |-> "call", x |-> "s", c |-> [op |-> "init"]],
  [a |-> "recv", x |-> "s", fs |-> <<[t |-> "SET", ack |-> FALSE, s |-> <<<<4, 10>>>>]>>],
  [a |-> "recv", x |-> "s", fs |-> <<[t |-> "SET", ack |-> TRUE, s |-> <<>>]>>] >>
mcQSids == <<1, 3>>
mcCfgC == DefaultCfg
mcCfgS == DefaultCfg
mcMaxClosed == 2
mcMaxChan == 3
mcMaxK == 1
=============================================================================
