---------------------------- MODULE MC_HdrInCPlain ----------------------------
(* Inbound header validation on a client that decodes header text (header_encoding): every catalogue block  *)
(* as response HEADERS / trailers on stream 1 and as the request of a PUSH_PROMISE.                          *)
EXTENDS Scn
\* (the sized lists of the catalogue belong to MC_BigC / MC_BigS)
Names == {n \in DOMAIN HL : BL0[n] < 1000}
mcRoles == {"c"}
mcCallsC == {}
mcCallsS == {}
mcAdvS == {}
mcAdvC ==
  {<<AH(1, h, es)>> : h \in Names, es \in BOOLEAN}
  \cup {<<APP(1, 2, h)>> : h \in Names}
mcSetup == Handshake("c", <<>>) \o <<CCall("c", CHdr(1, "req_get", TRUE))>>
mcQSids == <<1, 2>>
mcCfgC == DefaultCfg     \* (MC_HdrInC runs with header_encoding set; this copy without)
mcCfgS == DefaultCfg
mcMaxClosed == 2
mcMaxChan == 3
mcMaxK == 1
=============================================================================
