------------------------------ MODULE MC_CloseS ------------------------------
(* Every route to a closed connection on a server (close_connection, received GOAWAY, connection errors  *)
(* of each class) followed by every kind of call and frame.                                               *)
EXTENDS Scn
mcRoles == {"s"}
mcCallsC == {}
mcCallsS ==
  {[op |-> "close", code |-> 0, last |-> <<>>, tag |-> <<>>], [op |-> "close", code |-> 2, last |-> <<7>>, tag |-> <<"A">>],
   [op |-> "close", code |-> 0, last |-> <<0>>, tag |-> <<>>],          \* a last-stream-id below what the peer has opened
   CHdr(1, "resp200", FALSE), CData(1, 2, FALSE), [op |-> "end", sid |-> 1], [op |-> "rst", sid |-> 1, code |-> 8],
   [op |-> "ping", tag |-> "A", n |-> 8], [op |-> "set", s |-> <<<<3, 5>>>>], [op |-> "inc", n |-> 5, sid |-> <<>>],
   [op |-> "inc", n |-> 5, sid |-> <<1>>], [op |-> "ack", n |-> 4, sid |-> 1], [op |-> "push", sid |-> 1, pid |-> 2, h |-> "req_get_b"],
   [op |-> "alt", fld |-> "h2=\":443\"", org |-> <<"a.example">>, sid |-> <<>>],
   [op |-> "prio", sid |-> 1, w |-> <<5>>, dep |-> <<>>, excl |-> <<>>], [op |-> "oin", sid |-> 1]}
mcAdvC == {}
mcAdvS ==
  Singles({AGoAway(0, 0), AGoAway(1, 8), AH(1, "req_get", FALSE), AH(1, "trl", TRUE), AD(1, 4, FALSE, -1), AD(5, 1, FALSE, -1),
           APing("A", FALSE), ASet(<<<<2, 2>>>>), ASet(<<<<4, -1>>>>), AWU(0, 5), AWU(1, 2147483647), ARst(1, 0),
           APrio(1, 3, 1, FALSE), APrio(3, 3, 0, TRUE), ACont(1), AHB(3, "req_get", FALSE, "bad"), AHB(3, "req_get", FALSE, "big"),
           AH(3, "req_upper", FALSE), AH(2, "req_get", FALSE), AAlt(0, "o", "f"), AUnknown(0), AAck})
  \cup {<<APing("A", FALSE), AGoAway(0, 0)>>, <<APing("B", FALSE), APing("A", FALSE)>>}
mcSetup == Handshake("s", <<>>) \o <<CRecv("s", <<AH(1, "req_post_cl3", FALSE)>>)>>
mcQSids == <<1, 3>>
mcCfgC == DefaultCfg
mcCfgS == DefaultCfg
mcMaxClosed == 2
mcMaxChan == 3
mcMaxK == 1
=============================================================================
