---------------------------- MODULE MC_BacklogS ----------------------------
(* A server with a large amount of output the application has not taken yet (a response of 4 x 16383 octets left in the      *)
(* buffer by the setup): PINGs, SETTINGS and window updates arriving on top of it are answered as always (C26, C11), a        *)
(* GOAWAY discards it (C19).                                                                                                *)
EXTENDS Scn
mcRoles == {"s"}
mcCallsC == {}
mcCallsS == {Held([op |-> "ping", tag |-> "B", n |-> 8]), [op |-> "ping", tag |-> "B", n |-> 8], [op |-> "oin", sid |-> 1]}
mcAdvC == {}
mcAdvS ==
  Singles({APing("A", FALSE), APing("A", TRUE), ASet(<<<<3, 5>>>>), AWU(0, 5), AGoAway(1, 0)})
  \cup {<<APing("A", FALSE), APing("Z", FALSE)>>}
mcSetup == Handshake("s", <<>>) \o <<
  CRecv("s", <<AH(1, "req_get", TRUE)>>), CCall("s", CHdr(1, "resp200", FALSE)),
  CCall("s", CData(1, 16383, FALSE)) @@ [nf |-> TRUE], CCall("s", CData(1, 16383, FALSE)) @@ [nf |-> TRUE],
  CCall("s", CData(1, 16383, FALSE)) @@ [nf |-> TRUE], CCall("s", CData(1, 16383, FALSE)) @@ [nf |-> TRUE] >>
mcQSids == <<1>>
mcCfgC == DefaultCfg
mcCfgS == DefaultCfg
mcMaxClosed == 2
mcMaxChan == 3
mcMaxK == 1
=============================================================================
