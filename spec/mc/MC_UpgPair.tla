----------------------------- MODULE MC_UpgPair -----------------------------
(* h2c upgrade of a client and a server connected back to back: the client's HTTP2-Settings value is handed to the      *)
(* server's initiate_upgrade_connection; then the response on stream 1, new streams 3 / 2, a request body on stream 1.   *)
EXTENDS Scn
mcRoles == {"c", "s"}
mcCallsC ==
  {CUpg("none", <<>>), CHdr(3, "req_get", TRUE), CHdr(1, "req_get", TRUE), CData(1, 2, TRUE), [op |-> "end", sid |-> 1],
   [op |-> "set", s |-> <<<<4, 100>>, <<3, 7>>>>], [op |-> "rst", sid |-> 1, code |-> 8]}
mcCallsS ==
  {CUpg("peer", <<>>), CUpg("none", <<>>), CHdr(1, "resp200", FALSE), CHdr(1, "resp204", TRUE), CData(1, 2, TRUE),
   [op |-> "push", sid |-> 1, pid |-> 2, h |-> "req_get_b"], CHdr(2, "resp200", TRUE), CHdr(3, "resp200", TRUE)}
mcAdvC == {}
mcAdvS == {}
mcSetup == <<>>
mcQSids == <<1, 2, 3>>
mcCfgC == DefaultCfg
mcCfgS == DefaultCfg
mcMaxClosed == 2
mcMaxChan == 4
mcMaxK == 3
=============================================================================
