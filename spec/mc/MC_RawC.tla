------------------------------- MODULE MC_RawC -------------------------------
(* The frame layer on a client with request stream 1 open: PUSH_PROMISE with boundary lengths, padding and promised ids,  *)
(* padded and fragmented response header blocks, padded DATA, ALTSVC on a stream, frames behind a refused one.            *)
EXTENDS Scn
mcRoles == {"c"}
mcCallsS == {}
mcCallsC == {CHdr(3, "req_get", TRUE), CData(1, 2, TRUE), [op |-> "rst", sid |-> 1, code |-> 8], [op |-> "ack", n |-> 3, sid |-> 1]}
mcAdvS == {}
D(fl, sid, len, pad) == ARaw(0, fl, sid, len, [pad |-> pad, tag |-> "B"])
H(fl, sid, len, pad, bl, apad) == ARaw(1, fl, sid, len, [pad |-> pad, pr |-> <<7, 0, TRUE>>, bl |-> bl, apad |-> apad])
P(fl, sid, len, pad, pid, bl, apad) == ARaw(5, fl, sid, len, [pad |-> pad, pid |-> pid, bl |-> bl, apad |-> apad])
C(fl, sid, len) == ARaw(9, fl, sid, len, [bl |-> len])
RawFrames ==
  { P(4, 1, 4, -1, 2, 0, 0), P(4, 1, 5, -1, 2, 1, 0), P(4, 1, 3, -1, 2, 0, 0), P(4, 1, 4, -1, 0, 0, 0), P(4, 1, 4, -1, 3, 0, 0),
    P(4, 0, 4, -1, 2, 0, 0), P(12, 1, 0, -1, 2, 0, 0), P(12, 1, 5, 0, 2, 0, 0), P(12, 1, 6, 1, 2, 0, 1), P(12, 1, 7, 1, 2, 1, 1),
    P(12, 1, 5, 5, 2, 0, 0), P(12, 1, 4, 0, 2, 0, 0), P(0, 1, 5, -1, 2, 1, 0), P(4, 3, 4, -1, 2, 0, 0), P(4, 1, 4, -1, 4, 0, 0),
    H(4, 1, 0, -1, 0, 0), H(4, 1, 1, -1, 1, 0), H(5, 1, 1, -1, 1, 0), H(12, 1, 3, 1, 1, 1), H(36, 1, 5, -1, 0, 0), H(0, 1, 1, -1, 1, 0),
    C(4, 1, 1), C(0, 1, 0), C(4, 2, 1),
    D(8, 1, 3, 1), D(8, 1, 2, 2), D(9, 1, 1, 0), D(0, 2, 1, -1),
    ARaw(10, 0, 1, 4, [olen |-> 0, org |-> "", fld |-> "h2"]), ARaw(10, 0, 1, 5, [olen |-> 1, org |-> "o", fld |-> "h2"]),
    ARaw(10, 0, 0, 2, [olen |-> 0, org |-> "", fld |-> ""]), ARaw(10, 0, 0, 0, [olen |-> 0, org |-> "", fld |-> ""]),
    ARaw(8, 0, 1, 4, [inc |-> 0]), ARaw(3, 0, 1, 4, [code |-> 2]), ARaw(3, 0, 2, 4, [code |-> 2]) }
mcAdvC ==
  Singles(RawFrames \cup {AH(1, "resp200", FALSE), AD(1, 2, FALSE, -1), APP(1, 2, "req_get_b"), AH(2, "resp200", TRUE), ARst(2, 8)})
  \cup { <<AH(1, "resp200", FALSE), P(4, 1, 3, -1, 2, 0, 0), AD(1, 1, FALSE, -1)>>, <<P(0, 1, 5, -1, 2, 1, 0), C(4, 1, 1)>>,
         <<P(0, 1, 5, -1, 2, 1, 0), AD(1, 1, FALSE, -1)>>, <<H(0, 1, 1, -1, 1, 0), C(0, 1, 1), C(4, 1, 0)>>,
         <<APing("A", FALSE), D(8, 1, 2, 2), APing("B", FALSE)>> }
mcSetup == Handshake("c", <<>>) \o <<CCall("c", CHdr(1, "req_get", FALSE))>>
mcQSids == <<1, 2, 3>>
mcCfgC == DefaultCfg
mcCfgS == DefaultCfg
mcMaxClosed == 2
mcMaxChan == 3
mcMaxK == 1
=============================================================================
