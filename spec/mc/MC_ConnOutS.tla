---------------------------- MODULE MC_ConnOutS ----------------------------
(* Outbound DATA at the edge of the CONNECTION window (C03): a server that has already sent 3 x 16384 octets on stream 1, so  *)
(* that the connection window (16383) is smaller than the window of stream 3 (65535): DATA on stream 3 that fits exactly,     *)
(* one octet over, with and without padding ("padding counts toward both").                                                   *)
EXTENDS Scn
mcRoles == {"s"}
mcCallsC == {}
mcCallsS ==
  [op : {"data"}, sid : {3}, n : {16380, 16381, 16383}, tag : {"A"}, es : {FALSE}, pad : {-1, 2}]
  \cup [op : {"data"}, sid : {3}, n : {16382}, tag : {"A"}, es : {FALSE}, pad : {0}]
  \cup [op : {"data"}, sid : {1}, n : {1, 16383}, tag : {"A"}, es : {FALSE}, pad : {-1}]
mcAdvC == {}
mcAdvS == Singles({AWU(0, 1), AWU(3, 5), AWU(0, 16384)})
mcSetup == Handshake("s", <<>>) \o <<
  CRecv("s", <<AH(1, "req_get", TRUE)>>), CRecv("s", <<AH(3, "req_get", TRUE)>>),
  CCall("s", CHdr(1, "resp200", FALSE)), CCall("s", CHdr(3, "resp200", FALSE)),
  CCall("s", CData(1, 16384, FALSE)), CCall("s", CData(1, 16384, FALSE)), CCall("s", CData(1, 16384, FALSE)) >>
mcQSids == <<1, 3>>
mcCfgC == DefaultCfg
mcCfgS == DefaultCfg
mcMaxClosed == 2
mcMaxChan == 3
mcMaxK == 1
=============================================================================
