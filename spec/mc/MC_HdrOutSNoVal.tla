---------------------------- MODULE MC_HdrOutSNoVal ----------------------------
(* Outbound header pipeline on a server: every catalogue block as response / informational response /       *)
(* trailers on a request stream and as the request of a push.                                                *)
EXTENDS Scn
\* (the sized lists of the catalogue belong to MC_BigC / MC_BigS)
Names == {n \in DOMAIN HL : BL0[n] < 1000}
mcRoles == {"s"}
mcCallsC == {}
mcCallsS ==
  [op : {"hdr"}, sid : {1}, h : Names, es : BOOLEAN, pr : {<<>>}]
  \cup [op : {"push"}, sid : {1}, pid : {2}, h : Names]
mcAdvC == {}
mcAdvS == {}
mcSetup == Handshake("s", <<>>) \o <<CRecv("s", <<AH(1, "req_get", FALSE)>>)>>
mcQSids == <<1, 2>>
mcCfgC == DefaultCfg
mcCfgS == [DefaultCfg EXCEPT !.vo = FALSE]     \* the non-default configuration this copy of MC_HdrOutS is about
mcMaxClosed == 2
mcMaxChan == 3
mcMaxK == 1
=============================================================================
