-------------------------------- MODULE Scn --------------------------------
(***************************************************************************)
(* Scenario frame for the endpoint model: one endpoint facing a            *)
(* harness-driven (adversarial) peer, or a client and a server connected   *)
(* by two FIFO channels.  A scenario module (spec/mc/MC_*.tla) EXTENDS     *)
(* this one and defines the alphabets.                                     *)
(*                                                                         *)
(* Every step is one public call, one receive_data() of adversary frames,  *)
(* or (pair) one receive_data() of the first k frames in flight.  After    *)
(* each step the acting endpoint's output buffer is taken (data_to_send)   *)
(* unless the step says nf (no flush).                                     *)
(*                                                                         *)
(* `last` carries the step and the observation the model predicts for it:  *)
(*   p = [r result, o frames taken, e events, q queries, u unsure]         *)
(* which is exactly what the harness records from the real code.           *)
(***************************************************************************)
EXTENDS H2, Cat, TLCExt, Json

CONSTANTS Roles,        \* {"c"}, {"s"} or {"c","s"}
          CallsC, CallsS,   \* sets of call records available to each side
          AdvC, AdvS,       \* sets of frame sequences the harness peer may send to each side (single-endpoint mode)
          Setup,        \* sequence of steps executed before exploration starts (same step format)
          CfgC, CfgS,   \* endpoint configurations
          MaxClosed,    \* closed-stream memory bound used for both endpoints
          QSids,        \* stream ids whose windows are read after every step
          MaxDepth, MaxChan, MaxK,
          EMIT          \* print one witness behaviour per distinct state

VARIABLES eps, chan, last, hist,    \* hist: the witness behaviour of this state (hidden from the VIEW)
          src                      \* the state the last step started from (so that the VIEW can tell edges apart)
vars == <<eps, chan, last, hist, src>>

Other(x) == IF x = "c" THEN "s" ELSE "c"
Pair == Cardinality(Roles) = 2
CallsOf(x) == IF x = "c" THEN CallsC ELSE CallsS
AdvOf(x) == IF x = "c" THEN AdvC ELSE AdvS

\* header lists travel by catalogue name in steps; the model works on the token sequences
\* (recorded executions may carry a header list that is not in the catalogue: its tokens are then in field hx)
NamedTokens(hn) == [i \in 1..Len(hn) |-> TOK[hn[i]]]       \* a header list given by the names of its fields (alphabet TOK)
ResolveCall(c) == IF "hx" \in DOMAIN c THEN [c EXCEPT !.h = c.hx]
                  ELSE IF "hn" \in DOMAIN c THEN [c EXCEPT !.h = NamedTokens(c.hn)]
                  ELSE IF "h" \in DOMAIN c THEN [c EXCEPT !.h = HL[@]] @@ [bl0 |-> BL0[c.h]] ELSE c
FrameTokens(f) == IF "hx" \in DOMAIN f THEN f.hx ELSE IF "hn" \in DOMAIN f THEN NamedTokens(f.hn) ELSE HL[f.h]
\* frames of the harness peer (its encoder uses the table size the model says a conforming peer uses: H2!DecodeFailure)
\* (a field that arrives in a frame is octets, whatever type the list it was written from had)
AsReceived(h) == [i \in 1..Len(h) |-> [h[i] EXCEPT !.ty = "b"]]
ResolveFrame(f, ep) == IF "h" \in DOMAIN f THEN [f EXCEPT !.h = AsReceived(FrameTokens(f))]
                       ELSE IF f.t = "RAW" THEN f @@ [gt |-> HL["req_get"][1]]     \* the field a raw block octet decodes to
                       ELSE f

\* ---------------------------------------------------------------- constructors for scenario alphabets
AH(sid, h, es)        == [t |-> "HEADERS", sid |-> sid, es |-> es, h |-> h, pr |-> <<>>, blk |-> "ok"]
AHP(sid, h, es, pr)   == [t |-> "HEADERS", sid |-> sid, es |-> es, h |-> h, pr |-> pr, blk |-> "ok"]
AHB(sid, h, es, blk)  == [t |-> "HEADERS", sid |-> sid, es |-> es, h |-> h, pr |-> <<>>, blk |-> blk]
AD(sid, n, es, pad)   == [t |-> "DATA", sid |-> sid, es |-> es, n |-> n, tag |-> "B", pad |-> pad]
ARst(sid, code)       == [t |-> "RST", sid |-> sid, code |-> code]
AWU(sid, inc)         == [t |-> "WU", sid |-> sid, inc |-> inc]
ASet(pairs)           == [t |-> "SET", ack |-> FALSE, s |-> pairs]
AAck                  == [t |-> "SET", ack |-> TRUE, s |-> <<>>]
APing(tag, ack)       == [t |-> "PING", ack |-> ack, tag |-> tag]
AGoAway(lsid, code)   == [t |-> "GOAWAY", last |-> lsid, code |-> code, tag |-> "-"]
APrio(sid, w, dep, ex) == [t |-> "PRIO", sid |-> sid, w |-> w, dep |-> dep, excl |-> ex]
AAlt(sid, org, fld)   == [t |-> "ALT", sid |-> sid, org |-> org, fld |-> fld]
APP(sid, pid, h)      == [t |-> "PP", sid |-> sid, pid |-> pid, h |-> h, blk |-> "ok"]
ACont(sid)            == [t |-> "CONT", sid |-> sid]
AUnknown(sid)         == [t |-> "UNKNOWN", sid |-> sid]
\* a frame given by its octets' structure (the frame layer, H2!RawParse); extra: what the payload holds
ARaw(typ, fl, sid, len, extra) == extra @@ [t |-> "RAW", typ |-> typ, fl |-> fl, sid |-> sid, len |-> len, pad |-> -1]
\* header lists built from a base list (of field names) by edits: deletions, insertions and replacements of one field
EIns(b, i, t) == SubSeq(b, 1, i - 1) \o <<t>> \o SubSeq(b, i, Len(b))
EDel(b, i) == SubSeq(b, 1, i - 1) \o SubSeq(b, i + 1, Len(b))
ERep(b, i, t) == SubSeq(b, 1, i - 1) \o <<t>> \o SubSeq(b, i + 1, Len(b))
Edit1(b, A) == {EDel(b, i) : i \in 1..Len(b)} \cup {EIns(b, i, t) : i \in 1..(Len(b) + 1), t \in A} \cup {ERep(b, i, t) : i \in 1..Len(b), t \in A}
Edit2(b, A, A2) == Edit1(b, A) \cup UNION {Edit1(c, A2) : c \in Edit1(b, A)}
AHN(sid, hn, es)      == [t |-> "HEADERS", sid |-> sid, es |-> es, h |-> "x", hn |-> hn, pr |-> <<>>, blk |-> "ok"]
APPN(sid, pid, hn)    == [t |-> "PP", sid |-> sid, pid |-> pid, h |-> "x", hn |-> hn, blk |-> "ok"]
CHdrN(sid, hn, es)    == [op |-> "hdr", sid |-> sid, h |-> "x", hn |-> hn, es |-> es, pr |-> <<>>]
CInit(x)              == [a |-> "call", x |-> x, c |-> [op |-> "init"]]
CUpg(from, pairs)     == [op |-> "upg", src |-> from, s |-> pairs]
CCall(x, c)           == [a |-> "call", x |-> x, c |-> c]
CRecv(x, fs)          == [a |-> "recv", x |-> x, fs |-> fs]
CDlv(x, k)            == [a |-> "dlv", x |-> x, k |-> k]
CHdr(sid, h, es)      == [op |-> "hdr", sid |-> sid, h |-> h, es |-> es, pr |-> <<>>]
CData(sid, n, es)     == [op |-> "data", sid |-> sid, n |-> n, tag |-> "A", es |-> es, pad |-> -1]
Singles(S)            == {<<f>> : f \in S}
\* the usual preamble of a single endpoint: initiate, peer SETTINGS (pairs), peer's ACK of ours
Handshake(x, pairs)   == <<CInit(x), CRecv(x, <<ASet(pairs)>>), CRecv(x, <<AAck>>)>>
PairHandshake         == <<CInit("c"), CInit("s"), CDlv("s", 1), CDlv("c", 2), CDlv("s", 1)>>

St0 == [eps |-> [x \in Roles |-> InitEp(x, IF x = "c" THEN CfgC ELSE CfgS, MaxClosed)],
        chan |-> [x \in Roles |-> <<>>]]

\* frames as they travel: a client preface is glued to the frame behind it
RECURSIVE Visible(_)
Visible(frames) ==
  IF frames = <<>> THEN <<>>
  ELSE IF frames[1].t = "PREFACE" /\ Len(frames) > 1 THEN <<frames[2] @@ [pre |-> TRUE]>> \o Visible(SubSeq(frames, 3, Len(frames)))
  ELSE <<frames[1]>> \o Visible(Tail(frames))
\* take the output buffer of side x, hand it to the peer's channel in pair mode
\* (a step recorded from an application that takes the output when it pleases carries ap: the observation is what the step
\* APPENDED to the output buffer -- everything in it if the buffer was discarded meanwhile -- and the buffer is left alone)
Appended(old, new) == IF Len(new) >= Len(old) /\ SubSeq(new, 1, Len(old)) = old THEN SubSeq(new, Len(old) + 1, Len(new)) ELSE new
Flush(S, x, ep, nf) ==
  IF nf THEN [S |-> [S EXCEPT !.eps[x] = ep], o |-> <<>>]
  ELSE [S |-> [S EXCEPT !.eps[x] = [ep EXCEPT !.out = <<>>],
                        !.chan = IF Pair THEN [@ EXCEPT ![Other(x)] = @ \o Visible(ep.out)] ELSE @],
        o |-> ep.out]
NoFlush(s) == ("nf" \in DOMAIN s /\ s.nf) \/ ("ap" \in DOMAIN s /\ s.ap)
IsAp(s) == "ap" \in DOMAIN s /\ s.ap

Pred(r, o, ev, ep) == [r |-> r, o |-> PubFrames(o), e |-> ev, q |-> Queries(ep, QSids), z |-> Z(ep), u |-> ep.hd]

\* A receiving step has no predictable outcome when it hands a header block to an HPACK decoder that is out of step with the
\* encoder that wrote it: the decoder gave up in the middle of an earlier block or never saw one (dl), or (pair mode) the
\* peer's encoder context was consumed by a send that failed (hd).  Such a step, and what follows it, is not judged.
HasBlock(fs) == \E i \in 1..Len(fs) : fs[i].t \in {"HEADERS", "PP"} \/ (fs[i].t = "RAW" /\ fs[i].typ \in {1, 5, 9})
Unpredictable(S, s) ==
  /\ s.a \in {"recv", "dlv"}
  /\ LET fs == S.eps[s.x].pend \o (IF s.a = "recv" THEN s.fs ELSE SubSeq(S.chan[s.x], 1, s.k)) IN
     /\ HasBlock(fs)
     /\ S.eps[s.x].dl \/ (Pair /\ S.eps[Other(s.x)].hd)

\* one step: returns the new scenario state and the step record with its prediction
Do(S, s) ==
  LET x == s.x
      ep == S.eps[x]
  IN CASE s.a = "call" ->
            \* (pair mode) an upgrading server may be handed the HTTP2-Settings value the upgrading client produced
            LET cc == IF s.c.op = "upg" /\ s.c.src = "peer"
                      THEN [s.c EXCEPT !.src = IF Pair /\ S.eps[Other(x)].upgRet # <<>> THEN "lit" ELSE "none",
                                       !.s = IF Pair THEN S.eps[Other(x)].upgRet ELSE <<>>]
                      ELSE s.c
                r == Call(ep, ResolveCall(cc))
                fl == Flush(S, x, r.ep, NoFlush(s))
                o == IF IsAp(s) THEN Appended(ep.out, r.ep.out) ELSE fl.o
            IN [S |-> fl.S, last |-> s @@ [p |-> Pred(r.r, o, <<>>, r.ep), dev |-> r.ep.dev]]
       [] s.a = "recv" ->
            \* the harness peer of a server starts its first input with the client preface (unless the step says nopre)
            LET fs0 == [i \in 1..Len(s.fs) |-> ResolveFrame(s.fs[i], ep)]
                fs1 == IF x = "s" /\ ep.needPre /\ fs0 # <<>> /\ ~("nopre" \in DOMAIN s /\ s.nopre)
                       THEN <<fs0[1] @@ [pre |-> TRUE]>> \o Tail(fs0) ELSE fs0
                r == Receive(ep, fs1)
                fl == Flush(S, x, r.ep, NoFlush(s))
                o == IF IsAp(s) THEN Appended(ep.out, r.ep.out) ELSE fl.o
            IN [S |-> fl.S, last |-> s @@ [p |-> Pred(r.r, o, r.ev, r.ep) @@ [ux |-> Unpredictable(S, s)], dev |-> r.ep.dev]]
       \* the application takes (data_to_send) or discards (clear_outbound_data_buffer) the whole output buffer
       [] s.a = "take" ->
            [S |-> [S EXCEPT !.eps[x] = [ep EXCEPT !.out = <<>>]],
             last |-> s @@ [p |-> Pred(OK, <<>>, <<>>, [ep EXCEPT !.out = <<>>]), dev |-> ep.dev]]
       [] s.a = "dlv" ->
            LET fs == SubSeq(S.chan[x], 1, s.k)
                r == Receive(ep, fs)
                S1 == [S EXCEPT !.chan[x] = SubSeq(@, s.k + 1, Len(@))]
                fl == Flush(S1, x, r.ep, NoFlush(s))
            IN [S |-> fl.S, last |-> s @@ [p |-> Pred(r.r, fl.o, r.ev, r.ep) @@ [ux |-> Unpredictable(S, s)], dev |-> r.ep.dev]]

RECURSIVE RunSetup(_, _, _)
RunSetup(S, steps, acc) ==
  IF steps = <<>> THEN [S |-> S, trace |-> acc]
  ELSE LET d == Do(S, steps[1]) IN RunSetup(d.S, Tail(steps), Append(acc, d.last))
SetupResult == RunSetup(St0, Setup, <<>>)

Init == /\ eps = SetupResult.S.eps
        /\ chan = SetupResult.S.chan
        /\ last = [a |-> "init"]
        /\ hist = <<>>
        /\ src = <<>>

Step(s) == LET d == Do([eps |-> eps, chan |-> chan], s) IN
           /\ eps' = d.S.eps /\ chan' = d.S.chan /\ last' = d.last
           \* (the witness keeps the prediction of its last step only: every edge is the last step of its own witness)
           /\ hist' = IF EMIT THEN Append([i \in 1..Len(hist) |-> [f \in DOMAIN hist[i] \ {"p"} |-> hist[i][f]]], d.last) ELSE hist
           /\ src' = IF EMIT THEN <<eps, chan>> ELSE src

\* a call of a scenario alphabet marked nf is made without the application taking the output afterwards: what it wrote stays in
\* the connection's buffer (ep.out) until a later step takes it
StepOfCall(x, c) == IF "nf" \in DOMAIN c THEN [a |-> "call", x |-> x, c |-> [f \in DOMAIN c \ {"nf"} |-> c[f]], nf |-> TRUE]
                    ELSE [a |-> "call", x |-> x, c |-> c]
Held(c) == c @@ [nf |-> TRUE]
Next == TLCGet("level") < MaxDepth /\
  \E x \in Roles :
     \/ \E c \in CallsOf(x) : Step(StepOfCall(x, c))
     \/ \E fs \in AdvOf(x) : Step([a |-> "recv", x |-> x, fs |-> fs])
     \/ Pair /\ \E k \in 1..Min(MaxK, Len(chan[x])) : Step([a |-> "dlv", x |-> x, k |-> k])

Spec == Init /\ [][Next]_vars

Bound == TLCGet("level") <= MaxDepth /\ \A x \in Roles : Len(chan[x]) <= MaxChan
View == <<eps, chan>>              \* model checking: one visit per endpoint/channel state
GenView == <<eps, chan, last, src>>   \* generation: one witness behaviour per EDGE (source state, step) of the View graph
\* generation with one more step of history: one witness per PAIR of consecutive steps (the step before, without its
\* prediction, is part of the view).  Where the code keeps state the specification does not, two calls that lead to the same
\* specification state are then both followed by every next step (seeded change C18-i was missed for want of this).
GenView2 == <<eps, chan, last, src, IF Len(hist) >= 2 THEN [f \in DOMAIN hist[Len(hist) - 1] \ {"p", "dev"} |-> hist[Len(hist) - 1][f]] ELSE <<>>>>

\* ---------------------------------------------------------------- generic property formulas (on the step just taken)
IsStep == last.a # "init"
IsCall == IsStep /\ last.a = "call"
IsRecv == IsStep /\ last.a \in {"recv", "dlv"}
Excused(ds) == last.dev \cap ds # {}          \* a listed known deviation was exercised on the way here
H2Exceptions == {"ProtocolError", "FrameTooLargeError", "FrameDataMissingError", "TooManyStreamsError",
                 "FlowControlError", "StreamIDTooLowError", "NoAvailableStreamIDError", "NoSuchStreamError",
                 "StreamClosedError", "InvalidSettingsValueError", "InvalidBodyLengthError", "UnsupportedFrameError",
                 "RFC1122Error", "DenialOfServiceError"}
ProtocolErrors == H2Exceptions \ {"RFC1122Error"}
\* C29 / C01: a public call that raises adds no bytes to the output
\* (known finding upgrade_raises_after_preamble: initiate_upgrade_connection emits the preamble before it can fail)
\* (known finding header_frame_exceeds_limit: the frame-size assertion fails after the frames were written)
\* (o is what the step itself wrote unless it also handed over frames that earlier steps had left in the buffer)
OwnOutput == src = <<>> \/ IsAp(last) \/ src[1][last.x].out = <<>>
\* o is exactly what the step wrote: it was peeked at (ap), or taken from a buffer that was empty before the step
ExactOutput == IsAp(last) \/ (~NoFlush(last) /\ src[1][last.x].out = <<>>)
RaisingCallEmitsNothing == (IsCall /\ last.p.r.c # "ok" /\ OwnOutput) =>
                              (last.p.o = <<>> \/ Excused({"upgrade_raises_after_preamble", "header_frame_exceeds_limit"}))
\* C29 / C17: only documented exception classes
OnlyKnownExceptions ==
  IsStep => \/ last.p.r.c \in {"ok"} \cup H2Exceptions
            \/ IsCall /\ last.p.r.c \in {"ValueError", "TypeError"}
            \/ IsCall /\ last.p.r.c = "foreign:AssertionError" /\ Excused({"header_frame_exceeds_limit"})

\* ---------------------------------------------------------------- property formulas C01..C29 (on the step just taken)
\* Every formula looks at the step in `last`, the state it started from (`src`, kept when EMIT) and the state it
\* reached.  "Clean" = the acting endpoint has taken no marked deviation branch (known finding) on the way here:
\* the formulas state what the properties demand of the deviation-free part of the as-built model.
HasSrc   == IsStep /\ src # <<>>
Pre      == src[1][last.x]
Post     == eps[last.x]
Clean    == IsStep /\ last.dev = {}
AllClean == \A x \in Roles : eps[x].dev = {}
\* the frames of the step as the frame layer reads them (a raw frame it refuses, or a fragment, is of no interest here)
Cooked(f) == IF f.t # "RAW" THEN f
             ELSE LET p == RawParse(f, 16777215) IN IF p.k = "ok" /\ p.f.t # "FRAG" THEN p.f ELSE [t |-> "NONE"]
InFrames == CASE last.a = "recv" -> [i \in 1..Len(last.fs) |-> Cooked(ResolveFrame(last.fs[i], Pre))]
              [] last.a = "dlv"  -> SubSeq(src[2][last.x], 1, last.k)
              [] OTHER           -> <<>>
\* the single frame of an input as the frame layer hands it to the connection: a raw frame parsed under the frame-size limit
\* in force (refused frames and fragments of header blocks are of no interest to the formulas), any other frame as it is;
\* nothing left over from an earlier input, not in the middle of a header block, the preface already read
F1 == IF last.fs[1].t # "RAW" THEN last.fs[1]
      ELSE LET p == RawParse(ResolveFrame(last.fs[1], Pre), Pre.mif) IN IF p.k = "ok" /\ p.f.t # "FRAG" THEN p.f ELSE [t |-> "NONE"]
OneInput == HasSrc /\ last.a = "recv" /\ Len(last.fs) = 1 /\ Pre.pend = <<>> /\ Pre.hb = <<>> /\ (last.fs[1].t = "RAW" => ~Pre.needPre)
OneFrame(ty) == OneInput /\ F1.t = ty
OneRaw == OneInput /\ last.fs[1].t = "RAW"
ROk == last.p.r.c = "ok"
OutF == last.p.o
RECURSIVE SumSeq(_)
SumSeq(s) == IF s = <<>> THEN 0 ELSE s[1] + SumSeq(Tail(s))
FclOf(f) == f.n + (IF f.pad >= 0 THEN f.pad + 1 ELSE 0)
Count(seq, P(_)) == Len(SelectSeq(seq, P))
IsSetNoAck(f) == f.t = "SET" /\ ~f.ack
IsSetAck(f) == f.t = "SET" /\ f.ack
IsRSet(e) == e.t = "RSet"
IsGoAway(f) == f.t = "GOAWAY"
\* the model-internal frames (header fields as tokens) the call of this step appends
CallOutTokens == Call(Pre, ResolveCall(last.c)).ep.out

\* C13: the HPACK encoder context becomes unpredictable only through a marked failed-send deviation
\* (or through a table size the peer was never told about: known finding hpack_size_update_dropped)
P_C13_CleanSendsDecode == \A x \in Roles : eps[x].hd => eps[x].dev \cap {"failed_send_partial_state", "hpack_size_update_dropped"} # {}
\* C02: no emitted DATA frame is larger than the peer's MAX_FRAME_SIZE in force when it was sent
P_C02_FramesWithinLimits ==
  (HasSrc /\ OwnOutput) => \A i \in 1..Len(OutF) :
     /\ OutF[i].t = "DATA" => FclOf(OutF[i]) <= Pre.mof
     \* header blocks: every frame within the limit, no empty CONTINUATION behind a full frame
     /\ "sizes" \in DOMAIN OutF[i] =>
           LET sz == OutF[i].sizes IN
           /\ Excused({"header_frame_exceeds_limit"}) \/ \A j \in 1..Len(sz) : sz[j] <= Pre.mof
           /\ Len(sz) > 1 => sz[Len(sz)] > 0
\* C03: a successful send_data fits both windows; an oversized one raises FlowControlError and emits nothing
P_C03_SendWithinWindows ==
  (HasSrc /\ IsCall /\ last.c.op = "data" /\ last.c.pad <= 255 /\ Has(Pre, last.c.sid)) =>
     LET fsz == FclOf(last.c)
         w == Min(Pre.ow, Pre.streams[last.c.sid].ow)
     IN /\ ROk => fsz <= w
        /\ fsz > w => (last.p.r.c = "FlowControlError" /\ (OwnOutput => OutF = <<>>))
        /\ ROk => (Post.ow = Pre.ow - fsz /\ Post.streams[last.c.sid].ow = Pre.streams[last.c.sid].ow - fsz)
P_C03_WindowsBounded ==
  \A x \in Roles : eps[x].ow <= MAXW /\ \A sid \in DOMAIN eps[x].streams : eps[x].streams[sid].ow <= MAXW
\* C04: a DATA frame overrunning the advertised connection window is a FLOW_CONTROL_ERROR; FlowControlError only on overrun
P_C04_InboundDataExactlyAtWindow ==
  OneFrame("DATA") =>
     LET f == F1
         fcl == FclOf(f)
     IN /\ (Pre.conn # "CLOSED" /\ <<Pre.conn, "RECV_DATA">> \in DOMAIN ConnTable /\ fcl > 0 /\ fcl > Pre.iw.cur) => last.p.r.c = "FlowControlError"
        /\ (fcl = 0) => last.p.r.c # "FlowControlError"
        /\ last.p.r.c = "FlowControlError" =>
             (fcl > Pre.iw.cur \/ (Has(Pre, f.sid) /\ fcl > Pre.streams[f.sid].iw.cur))
\* C04: the connection window moves only by WINDOW_UPDATEs actually emitted and DATA actually received
P_C04_RemoteWindowIsAdvertised ==
  (HasSrc /\ ROk /\ ExactOutput /\ Count(InFrames, IsGoAway) = 0) =>      \* (a GOAWAY discards the unsent output, C19)
     LET wus == SelectSeq(OutF, LAMBDA f : f.t = "WU" /\ f.sid = 0)
         ds  == SelectSeq(InFrames, LAMBDA f : f.t = "DATA")
     IN Post.iw.cur - Pre.iw.cur = SumSeq([i \in 1..Len(wus) |-> wus[i].inc]) - SumSeq([i \in 1..Len(ds) |-> FclOf(ds[i])])
\* C05: automatic window management never advertises more than the maximum
P_C05_AutoUpdateWithinBounds ==
  \A x \in Roles : /\ eps[x].iw.cur <= eps[x].iw.max /\ eps[x].iw.bp >= 0
                   /\ \A sid \in DOMAIN eps[x].streams : LET w == eps[x].streams[sid].iw IN w.cur <= w.max /\ w.bp >= 0
\* C05: no stall -- once the application has acknowledged every flow-controlled octet it received on a stream that can still
\* receive, the window advertised for that stream is positive whenever its maximum is (known finding
\* settings_shrink_stalls_window: a local INITIAL_WINDOW_SIZE decrease can leave acknowledged octets uncredited at window 0)
CanReceive(s) == s.st \in {"OPEN", "HALF_CLOSED_LOCAL"}
P_C05_NoStall ==
  \A x \in Roles : LET ep == eps[x] IN
     (ep.conn # "CLOSED" /\ "settings_shrink_stalls_window" \notin ep.dev) =>
        /\ \A sid \in DOMAIN ep.streams : LET s == ep.streams[sid] IN
           (CanReceive(s) /\ s.un = 0 /\ s.iw.max > 0) => s.iw.cur > 0
        /\ (ep.un = 0 /\ ep.iw.max > 0) => ep.iw.cur > 0
\* C06: RFC 7540 5.1 states only, CLOSED is final, id watermarks never move back
RfcStates == {"IDLE", "RESERVED_LOCAL", "RESERVED_REMOTE", "OPEN", "HALF_CLOSED_LOCAL", "HALF_CLOSED_REMOTE", "CLOSED"}
P_C06_StreamStatesAreRfcStates ==
  /\ \A x \in Roles : \A sid \in DOMAIN eps[x].streams : eps[x].streams[sid].st \in RfcStates
  /\ HasSrc => /\ \A sid \in DOMAIN Pre.streams : (Pre.streams[sid].st = "CLOSED" /\ Has(Post, sid)) => Post.streams[sid].st = "CLOSED"
               /\ Post.hiIn >= Pre.hiIn /\ Post.hiOut >= Pre.hiOut
\* C07: a deviation-free server reports only requests, a deviation-free client only responses and pushes
P_C07_EventsFitRole ==
  (Clean /\ IsRecv) => \A i \in 1..Len(last.p.e) :
     LET t == last.p.e[i].t IN IF last.x = "s" THEN t \notin {"Resp", "Info", "Push"} ELSE t # "Req"
\* C07: the events reported per stream read headers, data, optional trailers, at most one StreamEnded, at most one StreamReset;
\* related-event fields point to later events of the same list; trailers carry stream_ended
P_C07_EventGrammar ==
  (HasSrc /\ Clean /\ IsRecv) => EgOK(Pre.eg, last.p.e, 1, last.x)
\* C08: role restrictions on what a deviation-free endpoint emits
P_C08_RoleRestrictedSends ==
  (Clean /\ IsCall) => \A i \in 1..Len(OutF) :
     LET f == OutF[i] IN IF last.x = "c" THEN f.t \notin {"PP", "ALT"}
                         ELSE f.t # "PRIO" /\ (f.t = "HEADERS" => f.pr = <<>>)
\* C09: watermarks have the right parity; the next id is above everything used and of the own parity
P_C09_IdsIncreaseWithParity ==
  \A x \in Roles : LET ep == eps[x] IN
     ("stream_id_above_max" \notin ep.dev) =>          \* (known finding: ids of 2^31 and more are accepted)
     /\ ep.hiOut >= 0 /\ ep.hiIn >= 0 /\ \A sid \in DOMAIN ep.streams : sid > 0        \* no id above 2^31-1
     /\ ep.hiOut # 0 => ep.hiOut % 2 = MyParity(ep)
     /\ ep.hiIn # 0 => ep.hiIn % 2 = 1 - MyParity(ep)
     /\ LET n == NextStreamId(ep) IN n = -1 \/ (n > ep.hiOut /\ n % 2 = MyParity(ep))
     /\ \A sid \in DOMAIN ep.streams : sid <= Hi(ep, sid)
\* C10: a step that adds an outbound open stream ends within the peer's limit
P_C10_OutboundWithinPeerLimit ==
  (HasSrc /\ Clean) =>
     LET par == MyParity(Post)
         n0 == CountOpen(Pre, par)
         n1 == CountOpen(Post, par)
     IN n1 > n0 => (~SHas(Pre.rs, 3) \/ SCur(Pre.rs, 3) < 0 \/ n1 <= SCur(Pre.rs, 3))
\* C10: a received frame that adds an inbound open stream is within the own (acknowledged) limit in force before it
P_C10_InboundWithinLocalLimit ==
  (Clean /\ OneFrame("HEADERS")) =>
     LET par == 1 - MyParity(Post)
         n0 == CountOpen(Pre, par)
         n1 == CountOpen(Post, par)
     IN n1 > n0 => (~SHas(Pre.ls, 3) \/ SCur(Pre.ls, 3) < 0 \/ n1 <= SCur(Pre.ls, 3))
\* C11: every SETTINGS frame of the peer is acknowledged exactly once and reported exactly once
\* (a GOAWAY received later in the same call discards the unsent output, C19: the ACK count of such calls is not constrained)
P_C11_PeerSettingsAckedOnce ==
  (HasSrc /\ IsRecv /\ ROk /\ ExactOutput) =>
     /\ Count(InFrames, IsGoAway) = 0 => Count(OutF, IsSetAck) = Count(InFrames, IsSetNoAck)
     /\ Count(last.p.e, IsRSet) = Count(InFrames, IsSetNoAck)
\* C12: update_settings succeeds exactly on valid values; a bad received value gives the mandated code
AllValid(pairs) == \A i \in 1..Len(pairs) : ValidateSetting(pairs[i][1], pairs[i][2]) = 0
P_C12_SettingsValidation ==
  /\ (HasSrc /\ IsCall /\ last.c.op = "set") =>
        /\ ROk => AllValid(last.c.s)
        /\ (AllValid(last.c.s) /\ <<Pre.conn, "SEND_SETTINGS">> \in DOMAIN ConnTable) => ROk
        /\ (~AllValid(last.c.s) /\ OwnOutput) => OutF = <<>>
  /\ (OneFrame("SET") /\ ~F1.ack /\ <<Pre.conn, "RECV_SETTINGS">> \in DOMAIN ConnTable) =>
        LET fs == Collapse(F1.s) IN
        IF AllValid(fs) THEN last.p.r.c # "InvalidSettingsValueError"
        ELSE LET i == CHOOSE j \in 1..Len(fs) : ValidateSetting(fs[j][1], fs[j][2]) # 0 /\
                                               \A k \in 1..(j-1) : ValidateSetting(fs[k][1], fs[k][2]) = 0
             IN last.p.r = Exc("InvalidSettingsValueError", IF fs[i][1] = 4 THEN 3 ELSE 1)
\* C14: with the default configuration every emitted header block is normalised and conformant
TokOK(t) == /\ ~t.nu /\ ~t.nw /\ ~t.vlead /\ ~t.vtrail /\ t.n \notin ConnSpecific /\ ~BadTE(t)
            /\ t.np => t.n \in KnownPseudo
            /\ t.n \in SecureNames => t.k = "N"
P_C14_EmittedBlocksConformant ==
  (HasSrc /\ IsCall /\ ROk /\ last.c.op \in {"hdr", "push"} /\ Pre.cfg = DefaultCfg) =>
     LET fs == CallOutTokens IN
     \A i \in 1..Len(fs) : fs[i].t \in {"HEADERS", "PP"} =>
        /\ \A j \in 1..Len(fs[i].h) : TokOK(fs[i].h[j]) /\ ~OutOfSeq(fs[i].h, j)
        /\ \A j, k \in 1..Len(fs[i].h) : (j # k /\ fs[i].h[j].np) => fs[i].h[j].n # fs[i].h[k].n
\* C15: with inbound validation on, a header block that is delivered in an event is conformant
InTokOK(t) == ~t.nu /\ ~t.ne /\ ~t.nw /\ ~t.vlead /\ ~t.vtrail /\ ~BadConn(t) /\ ~BadTE(t) /\ (t.np => t.n \in KnownPseudo)
IsHdrEvent(e) == e.t \in {"Req", "Resp", "Info", "Trl", "Push"}
P_C15_DeliveredBlocksConformant ==
  (OneInput /\ F1.t \in {"HEADERS", "PP"} /\ Pre.cfg.vi) =>
     LET h == CombineCookies(FrameTokens(F1)) IN
     /\ (ROk /\ Count(last.p.e, IsHdrEvent) > 0) => \A j \in 1..Len(h) : InTokOK(h[j]) /\ ~OutOfSeq(h, j)
     /\ (\E j \in 1..Len(h) : ~InTokOK(h[j]) \/ OutOfSeq(h, j)) => Count(last.p.e, IsHdrEvent) = 0
\* C01/C13: between two deviation-free endpoints every delivery of the peer's frames is accepted
\* Exempt (C01): an endpoint that has itself already closed the connection, and everything after any endpoint closed it
\* (frames sent to a closed peer).  Not demanded here (known finding sent_body_length_unchecked): the library lets an
\* application send a body that contradicts the content-length it declared, and a header list larger than the peer's
\* MAX_HEADER_LIST_SIZE (known finding sent_header_list_unchecked); the receiving side refuses both.
P_C01_DeliveredSendsAccepted ==
  (Pair /\ HasSrc /\ last.a = "dlv" /\ AllClean /\ \A x \in Roles : src[1][x].conn # "CLOSED"
        \* (with outbound validation or normalisation switched off the application can send what no peer accepts)
        /\ \A y \in Roles : src[1][y].cfg.vo /\ src[1][y].cfg.no)
     => \/ ROk
        \/ last.p.r.c \in {"InvalidBodyLengthError", "DenialOfServiceError"}
        \* known finding sent_content_length_unparsed: a content-length that is not a number goes out (outbound validation
        \* does not look at it); the receiving endpoint refuses the block
        \/ /\ last.p.r.c = "ProtocolError"
           /\ \E i \in 1..Len(InFrames) : InFrames[i].t \in {"HEADERS", "PP"} /\ HasCL(InFrames[i].h) /\ ~CLTok(InFrames[i].h).ci
        \* known finding sent_block_fails_inbound_rules: outbound validation is weaker than the library's own inbound
        \* validation (e.g. a field with an empty name goes out); the receiving endpoint refuses the block
        \/ /\ last.p.r.c = "ProtocolError"
           /\ \E i \in 1..Len(InFrames) : InFrames[i].t \in {"HEADERS", "PP"} /\
                 LET h == CombineCookies(InFrames[i].h) IN \E j \in 1..Len(h) : ~InTokOK(h[j]) \/ OutOfSeq(h, j)
        \* known finding sent_window_overflow_unchecked: update_settings announces an INITIAL_WINDOW_SIZE that, added to a stream
        \* window the same endpoint enlarged with increment_flow_control_window, exceeds 2^31-1 at the peer
        \* (the announcing endpoint fails in the same way when the acknowledgement comes back)
        \/ /\ last.p.r.c = "FlowControlError"
           /\ \E i \in 1..Len(InFrames) : InFrames[i].t = "SET" /\ (InFrames[i].ack \/ \E j \in 1..Len(InFrames[i].s) : InFrames[i].s[j][1] = 4)
\* C16: DATA against content-length
P_C16_ContentLength ==
  (OneFrame("DATA") /\ Has(Pre, F1.sid) /\ ~Excused({"content_length_rule_differs"})) =>
     LET f == F1
         s == Pre.streams[f.sid]
         tot == s.acl + f.n
         \* a response defined to have no content is refused exactly when it carries payload, whatever it declares;
         \* any other message exactly when its payload contradicts the length it declared (padding does not count)
         bad == IF s.snc THEN f.n > 0 ELSE s.scl # <<>> /\ (tot > s.scl[1] \/ (f.es /\ tot # s.scl[1]))
         delivered == ROk /\ Count(last.p.e, LAMBDA e : e.t = "Data") > 0
     IN /\ last.p.r.c = "InvalidBodyLengthError" => bad
        /\ delivered => ~bad
\* C18: a receive that raises a ProtocolError emits exactly one GOAWAY carrying the exception's code and the
\* highest peer-initiated stream id; the code for an undecodable block is excused by the marked deviation
P_C18_OneGoAwayWithCode ==
  (HasSrc /\ IsRecv /\ ~ROk /\ last.p.r.c \in ProtocolErrors /\ ExactOutput
     /\ ~Pre.needPre) =>      \* (only for an invalid client preface may the GOAWAY be omitted)
     /\ Count(OutF, IsGoAway) = 1
     /\ OutF[Len(OutF)].t = "GOAWAY" /\ OutF[Len(OutF)].code = last.p.r.e /\ OutF[Len(OutF)].last = Post.hiIn
     /\ last.p.e = <<>>
     /\ Post.conn = "CLOSED"
\* C18: a frame whose length contradicts its type (RFC 7540 4.2 and section 6 per frame type) is a FRAME_SIZE_ERROR
SizeViolation(f, lim) ==
  LET padded == Bit(f, 8)
      l1 == IF padded THEN f.len - 1 ELSE f.len
  IN \/ f.len > lim
     \/ f.typ = 2 /\ f.len # 5
     \/ f.typ = 3 /\ f.len # 4
     \/ f.typ = 4 /\ ((Bit(f, 1) /\ f.len > 0) \/ f.len % 6 # 0)
     \/ f.typ = 6 /\ f.len # 8
     \/ f.typ = 7 /\ f.len < 8
     \/ f.typ = 8 /\ f.len # 4
     \/ f.typ \in {0, 1, 5} /\ padded /\ f.len = 0
     \/ f.typ = 1 /\ Bit(f, 32) /\ l1 < 5
     \/ f.typ = 5 /\ l1 < 4
SidViolation(f) == (f.typ \in {0, 1, 2, 3, 5, 9} /\ f.sid = 0) \/ (f.typ \in {4, 6, 7} /\ f.sid # 0)
P_C18_SizeViolationsAreFrameSizeErrors ==
  (OneRaw /\ ~SidViolation(last.fs[1])
     /\ SizeViolation(last.fs[1], Pre.mif) /\ ~Excused({"settings_ack_length_code"})) =>
     last.p.r.e = 6 /\ last.p.r.c \in {"FrameTooLargeError", "FrameDataMissingError"}
\* C19: a closed connection emits nothing but GOAWAY, and calls that would emit raise
P_C19_ClosedStaysQuiet ==
  (HasSrc /\ Pre.conn = "CLOSED" /\ Pre.out = <<>> /\ ~Excused({"ack_data_when_closed", "rst_on_closed_connection"})) =>
     /\ \A i \in 1..Len(OutF) : OutF[i].t = "GOAWAY"
     /\ Post.conn = "CLOSED"
     /\ (IsCall /\ last.c.op \in {"hdr", "data", "end", "inc", "push", "ping", "rst", "set", "alt", "prio"}) => ~ROk
\* C19: a received GOAWAY discards whatever the application has not yet taken: with GOAWAY as the last frame of the input,
\* nothing is handed over, whatever was waiting
P_C19_GoAwayDiscardsOutput ==
  (HasSrc /\ last.a = "recv" /\ ROk /\ ~NoFlush(last) /\ Len(last.fs) > 0 /\ InFrames[Len(InFrames)].t = "GOAWAY") => OutF = <<>>
\* C20: frames on a locally reset stream are never connection errors and never produce events for it
P_C20_ResetRacesAreStreamErrors ==
  (OneInput /\ F1.t \in {"HEADERS", "DATA", "WU", "RST"}
     /\ ClosedBy(Pre, F1.sid) = "SRST" /\ Pre.conn # "CLOSED" /\ Pre.pend = <<>>
     \* the memory of closed streams is bounded (C27): a HEADERS frame first makes the connection collect its closed streams, and
     \* the record of this reset must survive that (once it has been forgotten, no library can tell a race from a violation)
     /\ (F1.t = "HEADERS" => ClosedBy(Cleanup(Pre), F1.sid) = "SRST")
     \* both before and after the closed stream's record has been collected
     /\ (Has(Pre, F1.sid) => Pre.streams[F1.sid].st = "CLOSED")
     /\ (F1.t = "DATA" => (FclOf(F1) <= Pre.iw.cur /\ FclOf(F1) <= Pre.mif))
     \* a well-formed header block the decoder accepts (anything else is the peer's error, not a race)
     /\ (F1.t = "HEADERS" => LET h == FrameTokens(F1)
                                  \* the frame as the decoder gets it (a block of the harness peer carries its pending table-size updates)
                                  g == LET f0 == ResolveFrame(F1, Pre) IN
                                       IF "tsu" \in DOMAIN f0 THEN f0 ELSE f0 @@ [tsu |-> IF f0.blk = "bad" THEN <<>> ELSE EncTsu(Pre.penc)]
                              IN
            /\ F1.blk = "ok" /\ ~(IsInformational(h) /\ F1.es)
            /\ DecodeHP(Pre, g).x = OK          \* table-size signalling and the header-list cap included
            /\ last.p.r.c \notin {"ProtocolError"} \/ ~Pre.dl)
     /\ ~Pre.dl /\ last.p.r.c # "TooManyStreamsError") =>
     /\ ROk
     /\ \A i \in 1..Len(last.p.e) : "sid" \in DOMAIN last.p.e[i] => last.p.e[i].sid # F1.sid
\* C22: PUSH_PROMISE leaves only a server, only while the client allows push; a client with push disabled refuses it
P_C22_PushOnlyWhenAllowed ==
  /\ (HasSrc /\ IsCall /\ last.c.op = "push" /\ ROk) =>
        last.x = "s" /\ SCur(Pre.rs, 2) # 0 /\ last.c.sid % 2 = 1 /\ last.c.pid % 2 = 0 /\ last.c.pid > Pre.hiOut
        /\ Has(Pre, last.c.sid) /\ Pre.streams[last.c.sid].st \in {"OPEN", "HALF_CLOSED_REMOTE"}
  /\ (OneFrame("PP") /\ SCur(Pre.ls, 2) = 0) => ~ROk
\* C23: PRIORITY changes no stream or flow-control state and yields at most a PriorityUpdated
P_C23_PriorityChangesNothing ==
  /\ (OneFrame("PRIO") /\ ROk) =>
        /\ Post.streams = Pre.streams /\ Post.closed = Pre.closed /\ Post.ow = Pre.ow /\ Post.iw = Pre.iw
        /\ Post.hiIn = Pre.hiIn /\ Post.hiOut = Pre.hiOut
        /\ \A i \in 1..Len(last.p.e) : last.p.e[i].t = "Prio"
  /\ (HasSrc /\ IsCall /\ last.c.op = "prio") =>
        /\ ROk => last.x = "c"
        /\ Post.streams = Pre.streams /\ Post.ow = Pre.ow /\ Post.iw = Pre.iw
\* C24: only a deviation-free server advertises; never both origin and stream
P_C24_AltSvcRules ==
  (HasSrc /\ IsCall /\ last.c.op = "alt" /\ ROk) =>
     /\ (last.x = "s" \/ Excused({"client_advertises_idle"}))
     /\ ~(last.c.org # <<>> /\ last.c.sid # <<>>)
\* C25: a successful upgrade leaves stream 1 half-closed (local on the client, remote on the server), the next own stream
\* ids at 3 and 2, and -- when a fresh server was handed the value an upgrading client produced -- the server's view of the
\* client's settings equal to the settings that client had in force; no request body can be sent on the upgraded stream
P_C25_UpgradeHandsOver ==
  /\ (HasSrc /\ IsCall /\ last.c.op = "upg" /\ ROk /\ Pre.conn = "IDLE" /\ Pre.streams = <<>> /\ Pre.hiOut = 0 /\ Pre.hiIn = 0) =>
        /\ Has(Post, 1)
        /\ Post.streams[1].st = (IF last.x = "c" THEN "HALF_CLOSED_LOCAL" ELSE "HALF_CLOSED_REMOTE")
        /\ NextStreamId(Post) = (IF last.x = "c" THEN 3 ELSE 2)
        /\ (last.x = "c") => LET ids == SelectSeq(Pre.ls.ord, LAMBDA id : id \notin Pre.ls.hn) IN
                             /\ Len(last.p.r.v) = Len(ids)
                             /\ \A k \in 1..Len(ids) : last.p.r.v[k] = <<ids[k] % 256, SCur(Pre.ls, ids[k])>>
        /\ (Pair /\ last.x = "s" /\ last.c.src = "peer" /\ Pre.conn = "IDLE") =>
              \A k \in 1..Len(eps["c"].upgRet) : LET pr == eps["c"].upgRet[k] IN SHas(Post.rs, pr[1]) /\ SCur(Post.rs, pr[1]) = pr[2]
  /\ (HasSrc /\ IsCall /\ last.x = "c" /\ last.c.op \in {"data", "end"} /\ last.c.sid = 1 /\ Has(Pre, 1)
         /\ Pre.streams[1].st = "HALF_CLOSED_LOCAL") => ~ROk
\* C26: one PING ACK with the same payload per received PING, in order; ACKs are never answered
IsPingNoAck(f) == f.t = "PING" /\ ~f.ack
IsPingAck(f) == f.t = "PING" /\ f.ack
\* (a GOAWAY received later in the same call discards the unsent output, C19: such calls are not constrained here)
P_C26_PingAnsweredOnce ==
  (HasSrc /\ IsRecv /\ ROk /\ ExactOutput /\ Count(InFrames, IsGoAway) = 0) =>
     LET ins == SelectSeq(InFrames, IsPingNoAck)
         outs == SelectSeq(OutF, IsPingAck)
     IN [i \in 1..Len(ins) |-> ins[i].tag] = [i \in 1..Len(outs) |-> outs[i].tag]
\* C27: the closed-stream memory is capped; frames that open nothing allocate nothing
P_C27_ClosedMemoryBounded == \A x \in Roles : Len(eps[x].closed) <= eps[x].maxClosed
P_C27_NoStateForNonOpeningFrames ==
  (HasSrc /\ last.a = "recv" /\ \A i \in 1..Len(last.fs) : last.fs[i].t \in {"PRIO", "WU", "RST", "UNKNOWN", "PING", "ALT"}) =>
     DOMAIN Post.streams \subseteq DOMAIN Pre.streams

\* ---------------------------------------------------------------- non-vacuity: cases of the formulas, counted by TLC
\* Each entry names a situation one of the formulas above speaks about (usually: its antecedent together with one side of its
\* case split).  TLC counts, per run, in how many of the states it evaluated the formulas the situation was present
\* (registers 200+i; printed as CASES at the end of the run).  A formula whose cases never occur in a run was checked vacuously
\* there; the counts go into the evidence.  (harness/tlcrun.py reads the names from this block: one <<"name", predicate>> per line)
HasDataCall == HasSrc /\ IsCall /\ last.c.op = "data" /\ last.c.pad <= 255 /\ Has(Pre, last.c.sid)
DataCallOver == HasDataCall /\ FclOf(last.c) > Min(Pre.ow, Pre.streams[last.c.sid].ow)
RecvOwn == HasSrc /\ IsRecv /\ ExactOutput
OneHdr == OneInput /\ F1.t \in {"HEADERS", "PP"}
HdrBad(h) == \E j \in 1..Len(h) : ~InTokOK(h[j]) \/ OutOfSeq(h, j)
Cases == <<
  <<"C01/delivery between clean open endpoints", Pair /\ HasSrc /\ last.a = "dlv" /\ AllClean /\ \A x \in Roles : src[1][x].conn # "CLOSED" /\ src[1][x].cfg.vo /\ src[1][x].cfg.no>>,
  <<"C29/a call raises", IsCall /\ last.p.r.c # "ok" /\ OwnOutput>>,
  <<"C17/a receive raises", IsRecv /\ last.p.r.c # "ok">>,
  <<"C02/DATA emitted", HasSrc /\ OwnOutput /\ \E i \in 1..Len(OutF) : OutF[i].t = "DATA">>,
  <<"C02/header block emitted with observed frame sizes", HasSrc /\ OwnOutput /\ \E i \in 1..Len(OutF) : "sizes" \in DOMAIN OutF[i]>>,
  <<"C02/header block in several frames", HasSrc /\ OwnOutput /\ \E i \in 1..Len(OutF) : "sizes" \in DOMAIN OutF[i] /\ Len(OutF[i].sizes) > 1>>,
  <<"C03/send_data within the windows", HasDataCall /\ ~DataCallOver /\ ROk>>,
  <<"C03/send_data exactly at the window", HasDataCall /\ ROk /\ FclOf(last.c) > 0 /\ FclOf(last.c) = Min(Pre.ow, Pre.streams[last.c.sid].ow)>>,
  <<"C03/send_data beyond a window", DataCallOver>>,
  <<"C04/DATA beyond the connection window", OneFrame("DATA") /\ Pre.conn # "CLOSED" /\ FclOf(F1) > 0 /\ FclOf(F1) > Pre.iw.cur>>,
  <<"C04/DATA refused for flow control", OneFrame("DATA") /\ last.p.r.c = "FlowControlError">>,
  <<"C04/DATA accepted", OneFrame("DATA") /\ ROk /\ FclOf(F1) > 0>>,
  <<"C04/connection WINDOW_UPDATE emitted", RecvOwn /\ ROk /\ \E i \in 1..Len(OutF) : OutF[i].t = "WU" /\ OutF[i].sid = 0>>,
  <<"C05/acknowledge emits an increment", HasSrc /\ IsCall /\ last.c.op = "ack" /\ ROk /\ \E i \in 1..Len(OutF) : OutF[i].t = "WU">>,
  <<"C05/everything acknowledged on a receiving stream", \E x \in Roles : eps[x].conn # "CLOSED" /\ \E sid \in DOMAIN eps[x].streams : CanReceive(eps[x].streams[sid]) /\ eps[x].streams[sid].un = 0 /\ eps[x].streams[sid].iw.cur < eps[x].streams[sid].iw.max>>,
  <<"C06/a stream closes", HasSrc /\ \E sid \in DOMAIN Post.streams : Post.streams[sid].st = "CLOSED" /\ (~Has(Pre, sid) \/ Pre.streams[sid].st # "CLOSED")>>,
  <<"C06/a closed stream is touched", HasSrc /\ \E sid \in DOMAIN Pre.streams : Pre.streams[sid].st = "CLOSED" /\ ((IsCall /\ last.c.op \in {"hdr", "data", "end", "rst", "push", "ack"} /\ last.c.sid = sid) \/ (last.a = "recv" /\ \E i \in 1..Len(last.fs) : "sid" \in DOMAIN last.fs[i] /\ last.fs[i].sid = sid))>>,
  <<"C07/events reported to a clean endpoint", HasSrc /\ Clean /\ IsRecv /\ last.p.e # <<>>>>,
  <<"C07/events on a stream that already has event history", HasSrc /\ Clean /\ IsRecv /\ \E i \in 1..Len(last.p.e) : "sid" \in DOMAIN last.p.e[i] /\ last.p.e[i].sid \in DOMAIN Pre.eg>>,
  <<"C08/a clean call emits", Clean /\ IsCall /\ OutF # <<>>>>,
  <<"C08/a clean send is refused", Clean /\ IsCall /\ last.c.op \in {"hdr", "data", "end", "push", "alt", "prio"} /\ last.p.r.c = "ProtocolError">>,
  <<"C09/an id is consumed", HasSrc /\ (Post.hiOut > Pre.hiOut \/ Post.hiIn > Pre.hiIn)>>,
  <<"C09/an id is refused as too low", IsStep /\ last.p.r.c = "StreamIDTooLowError">>,
  <<"C10/an outbound stream opens under a limit", HasSrc /\ Clean /\ CountOpen(Post, MyParity(Post)) > CountOpen(Pre, MyParity(Post)) /\ SHas(Pre.rs, 3)>>,
  <<"C10/TooManyStreamsError", IsStep /\ last.p.r.c = "TooManyStreamsError">>,
  <<"C10/an inbound stream opens", Clean /\ OneFrame("HEADERS") /\ CountOpen(Post, 1 - MyParity(Post)) > CountOpen(Pre, 1 - MyParity(Post))>>,
  <<"C11/peer SETTINGS received and acknowledged", RecvOwn /\ ROk /\ Count(InFrames, IsSetNoAck) > 0>>,
  <<"C11/several peer SETTINGS in one call", RecvOwn /\ ROk /\ Count(InFrames, IsSetNoAck) > 1>>,
  <<"C11/SETTINGS ACK received with changes pending", HasSrc /\ IsRecv /\ ROk /\ Count(InFrames, IsSetAck) > 0 /\ \E i \in 1..Len(last.p.e) : last.p.e[i].t = "SAck" /\ last.p.e[i].ch # <<>>>>,
  <<"C12/update_settings with an invalid value", HasSrc /\ IsCall /\ last.c.op = "set" /\ ~AllValid(last.c.s)>>,
  <<"C12/update_settings with valid values", HasSrc /\ IsCall /\ last.c.op = "set" /\ AllValid(last.c.s) /\ last.c.s # <<>>>>,
  <<"C12/received SETTINGS with an invalid value", OneFrame("SET") /\ ~F1.ack /\ ~AllValid(Collapse(F1.s))>>,
  <<"C13/a header-carrying call raises", HasSrc /\ IsCall /\ last.c.op \in {"hdr", "push"} /\ ~ROk>>,
  <<"C13/header block delivered to the peer", Pair /\ HasSrc /\ last.a = "dlv" /\ \E i \in 1..Len(InFrames) : InFrames[i].t \in {"HEADERS", "PP"}>>,
  <<"C14/header block emitted under the default configuration", HasSrc /\ IsCall /\ ROk /\ last.c.op \in {"hdr", "push"} /\ Pre.cfg = DefaultCfg>>,
  <<"C14/header list refused", HasSrc /\ IsCall /\ last.c.op \in {"hdr", "push"} /\ Pre.cfg = DefaultCfg /\ last.p.r.c = "ProtocolError">>,
  <<"C15/conformant block delivered", OneHdr /\ Pre.cfg.vi /\ ROk /\ Count(last.p.e, IsHdrEvent) > 0>>,
  <<"C15/non-conformant block received", OneHdr /\ Pre.cfg.vi /\ HdrBad(CombineCookies(FrameTokens(F1)))>>,
  <<"C16/DATA on a message with a declared length", OneFrame("DATA") /\ Has(Pre, F1.sid) /\ Pre.streams[F1.sid].scl # <<>>>>,
  <<"C16/InvalidBodyLengthError", IsStep /\ last.p.r.c = "InvalidBodyLengthError">>,
  <<"C16/DATA on a response without content", OneFrame("DATA") /\ Has(Pre, F1.sid) /\ Pre.streams[F1.sid].snc>>,
  <<"C18/connection error with GOAWAY", RecvOwn /\ ~ROk /\ last.p.r.c \in ProtocolErrors /\ ~Pre.needPre>>,
  <<"C18/frame with a size violation", OneRaw /\ ~SidViolation(last.fs[1]) /\ SizeViolation(last.fs[1], Pre.mif)>>,
  <<"C19/step on a closed connection", HasSrc /\ Pre.conn = "CLOSED" /\ Pre.out = <<>>>>,
  <<"C19/emitting call on a closed connection", HasSrc /\ Pre.conn = "CLOSED" /\ IsCall /\ last.c.op \in {"hdr", "data", "end", "inc", "push", "ping", "rst", "set", "alt", "prio"}>>,
  <<"C19/GOAWAY received with output waiting", HasSrc /\ last.a = "recv" /\ ROk /\ ~NoFlush(last) /\ Len(last.fs) > 0 /\ last.fs[Len(last.fs)].t = "GOAWAY" /\ Pre.out # <<>>>>,
  <<"C20/frame on a locally reset stream", OneInput /\ F1.t \in {"HEADERS", "DATA", "WU", "RST"} /\ ClosedBy(Pre, F1.sid) = "SRST" /\ Pre.conn # "CLOSED">>,
  <<"C20/frame on a reset stream already collected", OneInput /\ F1.t \in {"HEADERS", "DATA", "WU", "RST"} /\ ClosedBy(Pre, F1.sid) = "SRST" /\ ~Has(Pre, F1.sid) /\ Pre.conn # "CLOSED">>,
  <<"C22/push succeeds", HasSrc /\ IsCall /\ last.c.op = "push" /\ ROk>>,
  <<"C22/push refused", HasSrc /\ IsCall /\ last.c.op = "push" /\ ~ROk>>,
  <<"C22/PUSH_PROMISE with push disabled", OneFrame("PP") /\ SCur(Pre.ls, 2) = 0>>,
  <<"C22/PUSH_PROMISE accepted", OneFrame("PP") /\ ROk /\ \E i \in 1..Len(last.p.e) : last.p.e[i].t = "Push">>,
  <<"C23/PRIORITY received", OneFrame("PRIO") /\ ROk>>,
  <<"C23/prioritize called", HasSrc /\ IsCall /\ last.c.op = "prio">>,
  <<"C24/advertisement sent", HasSrc /\ IsCall /\ last.c.op = "alt" /\ ROk>>,
  <<"C24/advertisement reported", IsRecv /\ \E i \in 1..Len(last.p.e) : last.p.e[i].t = "Alt">>,
  <<"C25/upgrade of a fresh connection", HasSrc /\ IsCall /\ last.c.op = "upg" /\ ROk /\ Pre.conn = "IDLE" /\ Pre.streams = <<>>>>,
  <<"C25/server handed the client's value", Pair /\ HasSrc /\ IsCall /\ last.c.op = "upg" /\ ROk /\ last.x = "s" /\ last.c.src = "peer">>,
  <<"C26/PING answered", RecvOwn /\ ROk /\ Count(InFrames, IsPingNoAck) > 0 /\ Count(InFrames, IsGoAway) = 0>>,
  <<"C26/several PINGs in one call", RecvOwn /\ ROk /\ Count(InFrames, IsPingNoAck) > 1>>,
  <<"C27/closed-stream memory full", \E x \in Roles : Len(eps[x].closed) = eps[x].maxClosed /\ eps[x].maxClosed > 0>>,
  <<"C27/non-opening frame on an unknown stream", HasSrc /\ last.a = "recv" /\ \E i \in 1..Len(last.fs) : last.fs[i].t \in {"PRIO", "WU", "RST"} /\ last.fs[i].sid # 0 /\ ~Has(Pre, last.fs[i].sid)>> >>
NCases == 80
ASSUME \A i \in 1..NCases : TLCSet(200 + i, 0)
CountCases == \A i \in 1..Len(Cases) : Cases[i][2] => TLCSet(200 + i, TLCGet(200 + i) + 1)
PrintCases == PrintT("CASES " \o ToJson([i \in 1..NCases |-> TLCGet(200 + i)]))

\* ---------------------------------------------------------------- emission of behaviours for replay
Meta == [roles |-> Roles, qsids |-> QSids, max_closed |-> MaxClosed,
         cfg |-> [c |-> CfgC, s |-> CfgS], setup |-> SetupResult.trace]
EmitMeta == TLCGet("level") = 1 => PrintT(<<"META", ToJson(Meta)>>)
EmitTrace == (EMIT /\ Bound /\ TLCGet("level") > 1) =>
               PrintT(<<"TR", ToJson(hist)>>)
=============================================================================
