-------------------------------- MODULE Scn --------------------------------
(***************************************************************************)
(* Scenario frame for the endpoint model: one endpoint facing a            *)
(* harness-driven (adversarial) peer, or a client and a server connected   *)
(* by two FIFO channels.  A scenario module (spec/mc/MC_*.tla) EXTENDS     *)
(* this one and defines the alphabets.                                     *)
(*                                                                         *)
(* Every step is one public call, one receive_data() of adversary frames,  *)
(* or (pair) one receive_data() of the first k frames in flight.  After    *)
(* each step the acting endpoint's output buffer is taken (data_to_send)   *)
(* unless the step says nf (no flush).                                     *)
(*                                                                         *)
(* `last` carries the step and the observation the model predicts for it:  *)
(*   p = [r result, o frames taken, e events, q queries, u unsure]         *)
(* which is exactly what the harness records from the real code.           *)
(***************************************************************************)
EXTENDS H2, Cat, TLCExt, Json

CONSTANTS Roles,        \* {"c"}, {"s"} or {"c","s"}
          CallsC, CallsS,   \* sets of call records available to each side
          AdvC, AdvS,       \* sets of frame sequences the harness peer may send to each side (single-endpoint mode)
          Setup,        \* sequence of steps executed before exploration starts (same step format)
          CfgC, CfgS,   \* endpoint configurations
          MaxClosed,    \* closed-stream memory bound used for both endpoints
          QSids,        \* stream ids whose windows are read after every step
          MaxDepth, MaxChan, MaxK,
          EMIT          \* print one witness behaviour per distinct state

VARIABLES eps, chan, last, hist,    \* hist: the witness behaviour of this state (hidden from the VIEW)
          src                      \* the state the last step started from (so that the VIEW can tell edges apart)
vars == <<eps, chan, last, hist, src>>

Other(x) == IF x = "c" THEN "s" ELSE "c"
Pair == Cardinality(Roles) = 2
CallsOf(x) == IF x = "c" THEN CallsC ELSE CallsS
AdvOf(x) == IF x = "c" THEN AdvC ELSE AdvS

\* header lists travel by catalogue name in steps; the model works on the token sequences
ResolveCall(c) == IF "h" \in DOMAIN c THEN [c EXCEPT !.h = HL[@]] ELSE c
\* frames of the harness peer: its encoder uses the table size the model says a conforming peer uses
ResolveFrame(f, ep) == IF "h" \in DOMAIN f THEN [f EXCEPT !.h = HL[@]] @@ [ets |-> ep.peerEnc] ELSE f

\* ---------------------------------------------------------------- constructors for scenario alphabets
AH(sid, h, es)        == [t |-> "HEADERS", sid |-> sid, es |-> es, h |-> h, pr |-> <<>>, blk |-> "ok"]
AHP(sid, h, es, pr)   == [t |-> "HEADERS", sid |-> sid, es |-> es, h |-> h, pr |-> pr, blk |-> "ok"]
AHB(sid, h, es, blk)  == [t |-> "HEADERS", sid |-> sid, es |-> es, h |-> h, pr |-> <<>>, blk |-> blk]
AD(sid, n, es, pad)   == [t |-> "DATA", sid |-> sid, es |-> es, n |-> n, tag |-> "B", pad |-> pad]
ARst(sid, code)       == [t |-> "RST", sid |-> sid, code |-> code]
AWU(sid, inc)         == [t |-> "WU", sid |-> sid, inc |-> inc]
ASet(pairs)           == [t |-> "SET", ack |-> FALSE, s |-> pairs]
AAck                  == [t |-> "SET", ack |-> TRUE, s |-> <<>>]
APing(tag, ack)       == [t |-> "PING", ack |-> ack, tag |-> tag]
AGoAway(lsid, code)   == [t |-> "GOAWAY", last |-> lsid, code |-> code, tag |-> "-"]
APrio(sid, w, dep, ex) == [t |-> "PRIO", sid |-> sid, w |-> w, dep |-> dep, excl |-> ex]
AAlt(sid, org, fld)   == [t |-> "ALT", sid |-> sid, org |-> org, fld |-> fld]
APP(sid, pid, h)      == [t |-> "PP", sid |-> sid, pid |-> pid, h |-> h, blk |-> "ok"]
ACont(sid)            == [t |-> "CONT", sid |-> sid]
AUnknown(sid)         == [t |-> "UNKNOWN", sid |-> sid]
CInit(x)              == [a |-> "call", x |-> x, c |-> [op |-> "init"]]
CCall(x, c)           == [a |-> "call", x |-> x, c |-> c]
CRecv(x, fs)          == [a |-> "recv", x |-> x, fs |-> fs]
CDlv(x, k)            == [a |-> "dlv", x |-> x, k |-> k]
CHdr(sid, h, es)      == [op |-> "hdr", sid |-> sid, h |-> h, es |-> es, pr |-> <<>>]
CData(sid, n, es)     == [op |-> "data", sid |-> sid, n |-> n, tag |-> "A", es |-> es, pad |-> -1]
Singles(S)            == {<<f>> : f \in S}
\* the usual preamble of a single endpoint: initiate, peer SETTINGS (pairs), peer's ACK of ours
Handshake(x, pairs)   == <<CInit(x), CRecv(x, <<ASet(pairs)>>), CRecv(x, <<AAck>>)>>
PairHandshake         == <<CInit("c"), CInit("s"), CDlv("s", 1), CDlv("c", 2), CDlv("s", 1)>>

St0 == [eps |-> [x \in Roles |-> InitEp(x, IF x = "c" THEN CfgC ELSE CfgS, MaxClosed)],
        chan |-> [x \in Roles |-> <<>>]]

Visible(frames) == SelectSeq(frames, LAMBDA f : f.t # "PREFACE")
\* take the output buffer of side x, hand it to the peer's channel in pair mode
Flush(S, x, ep, nf) ==
  IF nf THEN [S |-> [S EXCEPT !.eps[x] = ep], o |-> <<>>]
  ELSE [S |-> [S EXCEPT !.eps[x] = [ep EXCEPT !.out = <<>>],
                        !.chan = IF Pair THEN [@ EXCEPT ![Other(x)] = @ \o Visible(ep.out)] ELSE @],
        o |-> ep.out]
NoFlush(s) == "nf" \in DOMAIN s /\ s.nf

Pred(r, o, ev, ep) == [r |-> r, o |-> PubFrames(o), e |-> ev, q |-> Queries(ep, QSids), z |-> Z(ep), u |-> ep.hd]

\* one step: returns the new scenario state and the step record with its prediction
Do(S, s) ==
  LET x == s.x
      ep == S.eps[x]
  IN CASE s.a = "call" ->
            LET r == Call(ep, ResolveCall(s.c))
                fl == Flush(S, x, r.ep, NoFlush(s))
            IN [S |-> fl.S, last |-> s @@ [p |-> Pred(r.r, fl.o, <<>>, r.ep), dev |-> r.ep.dev]]
       [] s.a = "recv" ->
            LET r == Receive(ep, [i \in 1..Len(s.fs) |-> ResolveFrame(s.fs[i], ep)])
                fl == Flush(S, x, r.ep, NoFlush(s))
            IN [S |-> fl.S, last |-> s @@ [p |-> Pred(r.r, fl.o, r.ev, r.ep), dev |-> r.ep.dev]]
       [] s.a = "dlv" ->
            LET fs == SubSeq(S.chan[x], 1, s.k)
                r == Receive(ep, fs)
                S1 == [S EXCEPT !.chan[x] = SubSeq(@, s.k + 1, Len(@))]
                fl == Flush(S1, x, r.ep, NoFlush(s))
            IN [S |-> fl.S, last |-> s @@ [p |-> Pred(r.r, fl.o, r.ev, r.ep), dev |-> r.ep.dev]]

RECURSIVE RunSetup(_, _, _)
RunSetup(S, steps, acc) ==
  IF steps = <<>> THEN [S |-> S, trace |-> acc]
  ELSE LET d == Do(S, steps[1]) IN RunSetup(d.S, Tail(steps), Append(acc, d.last))
SetupResult == RunSetup(St0, Setup, <<>>)

Init == /\ eps = SetupResult.S.eps
        /\ chan = SetupResult.S.chan
        /\ last = [a |-> "init"]
        /\ hist = <<>>
        /\ src = <<>>

Step(s) == LET d == Do([eps |-> eps, chan |-> chan], s) IN
           /\ eps' = d.S.eps /\ chan' = d.S.chan /\ last' = d.last
           /\ hist' = IF EMIT THEN Append(hist, d.last) ELSE hist
           /\ src' = IF EMIT THEN <<eps, chan>> ELSE src

Next == TLCGet("level") < MaxDepth /\
  \E x \in Roles :
     \/ \E c \in CallsOf(x) : Step([a |-> "call", x |-> x, c |-> c])
     \/ \E fs \in AdvOf(x) : Step([a |-> "recv", x |-> x, fs |-> fs])
     \/ Pair /\ \E k \in 1..Min(MaxK, Len(chan[x])) : Step([a |-> "dlv", x |-> x, k |-> k])

Spec == Init /\ [][Next]_vars

Bound == TLCGet("level") <= MaxDepth /\ \A x \in Roles : Len(chan[x]) <= MaxChan
View == <<eps, chan>>              \* model checking: one visit per endpoint/channel state
GenView == <<eps, chan, last, src>>   \* generation: one witness behaviour per EDGE (source state, step) of the View graph

\* ---------------------------------------------------------------- generic property formulas (on the step just taken)
IsStep == last.a # "init"
IsCall == IsStep /\ last.a = "call"
IsRecv == IsStep /\ last.a \in {"recv", "dlv"}
Excused(ds) == last.dev \cap ds # {}          \* a listed known deviation was exercised on the way here
H2Exceptions == {"ProtocolError", "FrameTooLargeError", "FrameDataMissingError", "TooManyStreamsError",
                 "FlowControlError", "StreamIDTooLowError", "NoAvailableStreamIDError", "NoSuchStreamError",
                 "StreamClosedError", "InvalidSettingsValueError", "InvalidBodyLengthError", "UnsupportedFrameError",
                 "RFC1122Error", "DenialOfServiceError"}
ProtocolErrors == H2Exceptions \ {"RFC1122Error"}
\* C29 / C01: a public call that raises adds no bytes to the output
RaisingCallEmitsNothing == (IsCall /\ last.p.r.c # "ok") => last.p.o = <<>>
\* C29 / C17: only documented exception classes
OnlyKnownExceptions ==
  IsStep => \/ last.p.r.c \in {"ok"} \cup H2Exceptions
            \/ IsCall /\ last.p.r.c \in {"ValueError", "TypeError"}
            \/ Excused({"foreign_exception_headers"})

\* ---------------------------------------------------------------- emission of behaviours for replay
Meta == [roles |-> Roles, qsids |-> QSids, max_closed |-> MaxClosed,
         cfg |-> [c |-> CfgC, s |-> CfgS], setup |-> SetupResult.trace]
EmitMeta == TLCGet("level") = 1 => PrintT(<<"META", ToJson(Meta)>>)
EmitTrace == (EMIT /\ Bound /\ TLCGet("level") > 1) =>
               PrintT(<<"TR", ToJson(hist)>>)
=============================================================================
