---------------------------- MODULE WindowsInd ----------------------------
(***************************************************************************)
(* Unbounded check (Apalache, inductive invariant) of the automatic window *)
(* management of ONE inbound window -- the operators of module Windows,    *)
(* which module H2 uses for the connection window and every stream window  *)
(* -- for ALL maxima 0..2^31-1 and ALL sizes of received DATA and of       *)
(* acknowledgements (C05), while the maximum is not changed by a local     *)
(* SETTINGS_INITIAL_WINDOW_SIZE update or a manual increment (those cases  *)
(* are decided by TLC on H2/Scn and are known findings).                   *)
(*                                                                         *)
(*   apalache-mc check --init=Init    --inv=IndInv  --length=0 WindowsInd.tla   (base)      *)
(*   apalache-mc check --init=IndInit --inv=IndInv  --length=1 WindowsInd.tla   (step)      *)
(*   apalache-mc check --init=IndInit --inv=Goal    --length=0 WindowsInd.tla   (IndInv => Goal) *)
(***************************************************************************)
EXTENDS Integers, Windows

VARIABLES
  \* the window manager
  \* @type: $wm;
  w,
  \* flow-controlled octets received and not yet passed to acknowledge_received_data
  \* @type: Int;
  un,
  \* increment emitted by the last step (0: none)
  \* @type: Int;
  lastInc,
  \* acknowledged octets waiting to be credited when that increment was computed
  \* @type: Int;
  lastBp

\* the manager would emit an update if asked now
Fire(m) == m.bp > 0 /\ Fires(m, m.bp)

\* DATA of n flow-controlled octets that fits the advertised window (anything larger is a FLOW_CONTROL_ERROR)
Recv == \E n \in Int :
          /\ 0 <= n /\ n <= w.cur
          /\ w' = WMConsume(w, n) /\ un' = un + n /\ lastInc' = 0 /\ lastBp' = w.bp
\* acknowledge_received_data(n) for octets that were received
Ack == \E n \in Int :
          /\ 0 <= n /\ n <= un
          /\ LET r == WMProcess(w, n) IN w' = r.w /\ lastInc' = r.inc
          /\ un' = un - n /\ lastBp' = w.bp + n
Next == Recv \/ Ack

Init == \E m \in Int : /\ 0 <= m /\ m <= MAXW
                       /\ w = WM(m) /\ un = 0 /\ lastInc = 0 /\ lastBp = 0

IndInv ==
  /\ 0 <= w.max /\ w.max <= MAXW
  /\ 0 <= w.cur /\ 0 <= w.bp /\ 0 <= un
  /\ w.cur + w.bp + un = w.max              \* every octet of the maximum is advertised, waiting for credit, or unacknowledged
  /\ (un = 0) => ~Fire(w)                   \* nothing is left waiting that the algorithm would credit
  /\ 0 <= lastInc /\ lastInc <= lastBp      \* an increment never exceeds the octets acknowledged and not yet credited

\* arbitrary state satisfying the invariant
IndInit == /\ \E m, c, b \in Int : w = [max |-> m, cur |-> c, bp |-> b]
           /\ un \in Int /\ lastInc \in Int /\ lastBp \in Int
           /\ IndInv

\* C05: no stall once everything is acknowledged; never above the maximum nor above 2^31-1
Goal == /\ (un = 0 /\ w.max > 0) => w.cur > 0
        /\ w.cur <= w.max /\ w.cur <= MAXW
=============================================================================
