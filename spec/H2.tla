-------------------------------- MODULE H2 --------------------------------
(***************************************************************************)
(* Executable reference model of one hyper-h2 endpoint (H2Connection).     *)
(*                                                                         *)
(*   Call(ep, c)     one public API call        -> [ep, r]                 *)
(*   RecvFrame(ep,f) one received (jumbo) frame -> [ep, x, ev]             *)
(*   Receive(ep,fs)  one receive_data() call    -> [ep, r, ev]             *)
(*                                                                         *)
(* All three are total functions: the model is deterministic (C28), and a  *)
(* prediction is a value.  The state decomposition mirrors the code        *)
(* (connection FSM, stream table incl. closed-but-not-collected streams,   *)
(* closed-stream memory, id watermarks, settings with pending values,      *)
(* outbound windows, inbound window managers, unsent output), and the      *)
(* order of checks inside each operator follows the code because the order *)
(* decides which error is seen and what has changed before a raise.        *)
(*                                                                         *)
(* Places where the pinned tree departs from what the properties demand    *)
(* are written as the code behaves and recorded in ep.dev (Mark), so that  *)
(* property formulas can be stated as "NoDev => P" and every manifestation *)
(* of a known finding is attributable (DESIGN section 2.2).                *)
(***************************************************************************)
EXTENDS Integers, Sequences, FiniteSets, TLC, Tables, Headers, Windows

None == <<>>
Some(x) == <<x>>

\* Numbers of 2^31 and more are written as their 32-bit two's complement (negative): unsigned comparison, and the 31 bits of a
\* stream id that reach the wire.
UGt(a, b) == IF (a < 0) = (b < 0) THEN a > b ELSE a < 0
WireSid(sid) == IF sid < 0 THEN (sid + 2147483647) + 1 ELSE sid
Max0(a) == IF a > 0 THEN a ELSE 0

\* ---------------------------------------------------------------- results / exceptions
OK == [c |-> "ok", e |-> -1]
Exc(c, e) == [c |-> c, e |-> e]
PE == Exc("ProtocolError", 1)
SCE == Exc("StreamClosedError", 5)
NSE == Exc("NoSuchStreamError", 1)
FCE == Exc("FlowControlError", 3)
IsForeign(x) == x.c \in {"foreign:IndexError", "foreign:UnicodeDecodeError", "foreign:KeyError", "foreign:AssertionError"}

Mark(ep, d) == [ep EXCEPT !.dev = @ \cup {d}]

\* ---------------------------------------------------------------- frames
FPreface == [t |-> "PREFACE"]
FSettings(pairs) == [t |-> "SET", ack |-> FALSE, s |-> pairs]
FSettingsAck == [t |-> "SET", ack |-> TRUE, s |-> <<>>]
\* h: tokens; tsu: the HPACK dynamic-table size updates at the head of the block
FHeaders(sid, es, h, pr, tsu) == [t |-> "HEADERS", sid |-> sid, es |-> es, h |-> h, pr |-> pr, blk |-> "ok", tsu |-> tsu]
FPush(sid, pid, h, tsu) == [t |-> "PP", sid |-> sid, pid |-> pid, h |-> h, blk |-> "ok", tsu |-> tsu]
FData(sid, es, n, tag, pad) == [t |-> "DATA", sid |-> sid, es |-> es, n |-> n, tag |-> tag, pad |-> pad]
FRst(sid, code) == [t |-> "RST", sid |-> sid, code |-> code]
FPing(ack, tag) == [t |-> "PING", ack |-> ack, tag |-> tag]
FGoAway(last, code, tag) == [t |-> "GOAWAY", last |-> last, code |-> code, tag |-> tag]
FWU(sid, inc) == [t |-> "WU", sid |-> sid, inc |-> inc]
FPrio(sid, w, dep, excl) == [t |-> "PRIO", sid |-> sid, w |-> w, dep |-> dep, excl |-> excl]
FAlt(sid, org, fld) == [t |-> "ALT", sid |-> sid, org |-> org, fld |-> fld]
\* what an observer of the byte stream sees of a frame (header tokens -> decoded fields)
\* (sizes: payload lengths of the HEADERS / PUSH_PROMISE frame and its CONTINUATION frames, when the step asks for them)
WithSizes(f, g) == IF "sizes" \in DOMAIN f THEN g @@ [sizes |-> f.sizes] ELSE g
PubFrame(f) == IF f.t = "HEADERS" THEN WithSizes(f, [t |-> "HEADERS", sid |-> f.sid, es |-> f.es, h |-> WireList(f.h, "b"), pr |-> f.pr])
               ELSE IF f.t = "PP" THEN WithSizes(f, [t |-> "PP", sid |-> f.sid, pid |-> f.pid, h |-> WireList(f.h, "b")])
               ELSE f
PubFrames(fs) == [i \in 1..Len(fs) |-> PubFrame(fs[i])]

\* ---------------------------------------------------------------- events
EvHdr(t, sid, h, se, pu) == [t |-> t, sid |-> sid, h |-> h, se |-> se, pu |-> pu]
EvData(sid, n, tag, fcl, se) == [t |-> "Data", sid |-> sid, n |-> n, tag |-> tag, fcl |-> fcl, se |-> se]
EvWU(sid, d) == [t |-> "WU", sid |-> sid, d |-> d]
EvEnd(sid) == [t |-> "End", sid |-> sid]
EvReset(sid, code, rem) == [t |-> "Reset", sid |-> sid, code |-> code, rem |-> rem]
EvPush(pid, par, h) == [t |-> "Push", sid |-> pid, par |-> par, h |-> h]
EvPrio(sid, w, dep, excl) == [t |-> "Prio", sid |-> sid, w |-> w, dep |-> dep, excl |-> excl]

\* ---------------------------------------------------------------- settings (h2.settings.Settings)
\* q: id -> sequence of values, head = current; hn: ids whose head is None; ord: dict insertion order
SHeaderTable == 1  SEnablePush == 2  SMaxConc == 3  SInitWin == 4  SMaxFrame == 5  SMaxHdrList == 6  SConnect == 8

InitSettings(isClient, extra) ==
  LET base == (1 :> <<4096>>) @@ (2 :> <<IF isClient THEN 1 ELSE 0>>) @@ (4 :> <<65535>>) @@ (5 :> <<16384>>) @@ (8 :> <<0>>)
  IN IF extra THEN [q |-> base @@ (3 :> <<100>>) @@ (6 :> <<65536>>), hn |-> {}, ord |-> <<1, 2, 4, 5, 8, 3, 6>>]
     ELSE [q |-> base, hn |-> {}, ord |-> <<1, 2, 4, 5, 8>>]

SHas(S, id) == id \in DOMAIN S.q /\ id \notin S.hn
SCur(S, id) == S.q[id][1]
\* _validate_setting: 0 = fine, otherwise the error code.  Values >= 2^31 appear as negative numbers.
ValidateSetting(id, v) ==
  CASE id = 2 -> IF v \in {0, 1} THEN 0 ELSE 1
    [] id = 4 -> IF v >= 0 THEN 0 ELSE 3
    [] id = 5 -> IF v >= 16384 /\ v <= 16777215 THEN 0 ELSE 1
    [] id = 8 -> IF v \in {0, 1} THEN 0 ELSE 1
    [] OTHER  -> 0
SAppend(S, id, v) ==
  IF id \in DOMAIN S.q THEN [S EXCEPT !.q[id] = Append(@, v)]
  ELSE [q |-> S.q @@ (id :> <<0, v>>), hn |-> S.hn \cup {id}, ord |-> Append(S.ord, id)]
\* MutableMapping.update: key by key, stops at the first invalid value (earlier keys stay enqueued)
RECURSIVE SUpdate(_, _)
SUpdate(S, pairs) ==
  IF pairs = <<>> THEN [S |-> S, code |-> 0]
  ELSE LET code == ValidateSetting(pairs[1][1], pairs[1][2]) IN
       IF code # 0 THEN [S |-> S, code |-> code]
       ELSE SUpdate(SAppend(S, pairs[1][1], pairs[1][2]), Tail(pairs))
\* Settings.acknowledge(): one pending value of EVERY key becomes current (not: of one frame)
PendingIds(S) == SelectSeq(S.ord, LAMBDA id : Len(S.q[id]) > 1)
SAck(S) ==
  LET ids == PendingIds(S)
      changes == [i \in 1..Len(ids) |-> <<ids[i], IF ids[i] \in S.hn THEN None ELSE Some(S.q[ids[i]][1]), S.q[ids[i]][2]>>]
      S2 == [S EXCEPT !.q = [id \in DOMAIN S.q |-> IF Len(S.q[id]) > 1 THEN Tail(S.q[id]) ELSE S.q[id]],
                      !.hn = @ \ {ids[i] : i \in 1..Len(ids)}]
  IN [S |-> S2, ch |-> changes]
ChangeOf(ch, id) == LET S == {i \in 1..Len(ch) : ch[i][1] = id} IN IF S = {} THEN None ELSE Some(ch[CHOOSE i \in S : TRUE])
\* a SETTINGS payload as a dictionary: one value per identifier (the last one), in order of first appearance
RECURSIVE Collapse(_)
Collapse(p) ==
  IF p = <<>> THEN <<>>
  ELSE LET id == p[1][1]
           S == {i \in 1..Len(p) : p[i][1] = id}
           lastv == p[CHOOSE i \in S : \A j \in S : j <= i][2]
       IN <<<<id, lastv>>>> \o Collapse(SelectSeq(Tail(p), LAMBDA q : q[1] # id))
\* SETTINGS_MAX_CONCURRENT_STREAMS with its "unset = unlimited" default; big wire values are negative here
WithinConcurrency(nOpen, S) == ~SHas(S, 3) \/ SCur(S, 3) < 0 \/ nOpen + 1 <= SCur(S, 3)

\* ---------------------------------------------------------------- HPACK dynamic-table size bookkeeping (hpack.Encoder)
\* size: the table size in use; rz: "resized" flag of the LAST assignment (an assignment of the same value clears it);
\* ch: sizes assigned and not yet signalled.  A header block starts with all of ch if rz is set, and clears both;
\* if rz is not set the pending sizes stay unsignalled (until some later resize).
EncInit == [size |-> 4096, rz |-> FALSE, ch |-> <<>>]
EncSet(e, v) == [size |-> v, rz |-> v # e.size, ch |-> IF v # e.size THEN Append(e.ch, v) ELSE e.ch]
EncTsu(e) == IF e.rz THEN e.ch ELSE <<>>
EncAfter(e) == IF e.rz THEN [e EXCEPT !.rz = FALSE, !.ch = <<>>] ELSE e

\* ---------------------------------------------------------------- a header block on the wire (H2Stream._build_headers_frames)
\* The encoded block is cut into slices of max_outbound_frame_size octets (an empty block still takes one frame); the first
\* slice goes into the HEADERS / PUSH_PROMISE frame, behind the priority fields (5 octets) or the promised id (4 octets),
\* which are NOT counted when the block is cut: that frame can exceed the peer's limit (deviation header_frame_exceeds_limit).
RECURSIVE Slices(_, _)
Slices(bl, mof) == IF bl <= mof THEN <<bl>> ELSE <<mof>> \o Slices(bl - mof, mof)
BlockSizes(bl, mof, extra) == LET sl == Slices(bl, mof) IN <<sl[1] + extra>> \o Tail(sl)
\* the block length of this call's header list: logged by a recorded execution (c.bl), or known for a catalogue list that is
\* the first block of a fresh encoder (c.bl0); -1: unknown (then no sizes are predicted)
BlockLen(ep, c) == IF "bl" \in DOMAIN c THEN c.bl
                   ELSE IF "bl0" \in DOMAIN c /\ ep.nblk = 0 /\ ep.enc = EncInit THEN c.bl0 ELSE -1
WantSizes(c) == "sz" \in DOMAIN c /\ c.sz
SizesOf(ep, c, extra) == IF WantSizes(c) /\ BlockLen(ep, c) >= 0 THEN BlockSizes(BlockLen(ep, c), ep.mof, extra) ELSE <<>>
TooBig(sizes, mof) == \E i \in 1..Len(sizes) : sizes[i] > mof
AddSizes(f, sizes) == IF sizes = <<>> THEN f ELSE f @@ [sizes |-> sizes]
AssertionFailure == Exc("foreign:AssertionError", -1)

\* (inbound window manager: module Windows)

\* ---------------------------------------------------------------- streams
NewStream(ep) ==
  [st |-> "IDLE", cl |-> "N", hs |-> FALSE, ts |-> FALSE, hr |-> FALSE, tr |-> FALSE, by |-> "N",
   ow |-> SCur(ep.rs, 4), iw |-> WM(SCur(ep.ls, 4)),
   eclSet |-> FALSE, ecl |-> 0, acl |-> 0, meth |-> "None", auth |-> "None",
   \* (ghosts for C16, not in the code) method of the request this endpoint sent on the stream; the content-length the
   \* message being received declares (<<>>: none); whether that message is a response defined to have no content
   rmeth |-> "None", scl |-> <<>>, snc |-> FALSE,
   un |-> 0]       \* (ghost, not in the code) flow-controlled octets received and not yet passed to acknowledge_received_data
StreamOpen(s) == s.st \in {"OPEN", "HALF_CLOSED_LOCAL", "HALF_CLOSED_REMOTE"}

\* result of one FSM input: st = new stream record, oc in {"ok","PE","SCE"}, ev = name of the produced event or "none",
\* mis = a LOCAL input was invalid and moved a live stream to CLOSED (deviation misuse_closes_stream)
FR(st, oc, ev) == [st |-> st, oc |-> oc, ev |-> ev, mis |-> FALSE]
SideEffect(fn, s) ==
  CASE fn = "none" -> FR(s, "ok", "none")
    [] fn = "request_sent" -> FR([s EXCEPT !.cl = "T", !.hs = TRUE], "ok", "_RequestSent")
    [] fn = "response_sent" ->
         IF ~s.hs THEN IF s.cl \in {"T", "N"} THEN FR(s, "PE", "none")
                       ELSE FR([s EXCEPT !.hs = TRUE], "ok", "_ResponseSent")
         ELSE IF s.ts THEN FR(s, "PE", "none") ELSE FR([s EXCEPT !.ts = TRUE], "ok", "_TrailersSent")
    [] fn = "request_received" ->
         IF s.hr \/ s.tr THEN FR(s, "PE", "none") ELSE FR([s EXCEPT !.cl = "F", !.hr = TRUE], "ok", "Req")
    [] fn = "response_received" ->
         IF ~s.hr THEN IF s.cl # "T" THEN FR(s, "PE", "none") ELSE FR([s EXCEPT !.hr = TRUE], "ok", "Resp")
         ELSE IF s.tr THEN FR(s, "PE", "none") ELSE FR([s EXCEPT !.tr = TRUE], "ok", "Trl")
    [] fn = "data_received" -> IF ~s.hr THEN FR(s, "PE", "none") ELSE FR(s, "ok", "Data")
    [] fn = "window_updated" -> FR(s, "ok", "WU")
    [] fn = "stream_half_closed" -> FR(s, "ok", "End")
    [] fn = "stream_ended" -> FR([s EXCEPT !.by = "RES"], "ok", "End")
    [] fn = "stream_reset" -> FR([s EXCEPT !.by = "RRST"], "ok", "Reset")
    [] fn = "send_new_pushed_stream" -> IF s.cl # "N" THEN FR(s, "PE", "none") ELSE FR([s EXCEPT !.cl = "F", !.hr = TRUE], "ok", "none")
    [] fn = "recv_new_pushed_stream" -> IF s.cl # "N" THEN FR(s, "PE", "none") ELSE FR([s EXCEPT !.cl = "T", !.hs = TRUE], "ok", "none")
    [] fn = "send_push_promise" -> IF s.cl = "T" THEN FR(s, "PE", "none") ELSE FR(s, "ok", "_PushedRequestSent")
    [] fn = "recv_push_promise" -> IF s.cl # "T" THEN FR(s, "PE", "none") ELSE FR(s, "ok", "Push")
    [] fn = "send_end_stream" -> FR([s EXCEPT !.by = "SES"], "ok", "none")
    [] fn = "send_reset_stream" -> FR([s EXCEPT !.by = "SRST"], "ok", "none")
    [] fn = "reset_stream_on_error" -> FR([s EXCEPT !.by = "SRST"], "SCE", "ResetLocal")
    [] fn = "recv_on_closed_stream" -> FR(s, "SCE", "none")
    [] fn = "send_on_closed_stream" -> FR(s, "SCE", "none")
    [] fn = "recv_push_on_closed_stream" -> IF s.by = "SRST" THEN FR(s, "SCE", "none") ELSE FR(s, "PE", "none")
    [] fn = "send_push_on_closed_stream" -> FR(s, "PE", "none")
    [] fn = "send_informational_response" -> IF s.hs THEN FR(s, "PE", "none") ELSE FR(s, "ok", "_ResponseSent")
    [] fn = "recv_informational_response" -> IF s.hr THEN FR(s, "PE", "none") ELSE FR(s, "ok", "Info")
    [] fn = "recv_alt_svc" -> IF s.cl = "F" \/ s.hr THEN FR(s, "ok", "none") ELSE FR(s, "ok", "Alt")
    [] fn = "send_alt_svc" -> IF s.hs THEN FR(s, "PE", "none") ELSE FR(s, "ok", "none")

IsSend(input) == input \in {"SEND_HEADERS", "SEND_PUSH_PROMISE", "SEND_RST_STREAM", "SEND_DATA", "SEND_WINDOW_UPDATE",
                            "SEND_END_STREAM", "SEND_INFORMATIONAL_HEADERS", "SEND_ALTERNATIVE_SERVICE"}
\* H2StreamStateMachine.process_input
Process(s, input) ==
  LET k == <<s.st, input>> IN
  IF k \notin DOMAIN StreamTable
  THEN [FR([s EXCEPT !.st = "CLOSED"], "PE", "none") EXCEPT !.mis = IsSend(input) /\ s.st # "CLOSED"]
  ELSE LET e == StreamTable[k]
           r == SideEffect(e.fn, [s EXCEPT !.st = e.to])
       IN IF r.oc = "ok" THEN r
          ELSE [r EXCEPT !.st.st = "CLOSED", !.mis = IsSend(input) /\ r.oc = "PE" /\ s.st # "CLOSED"]
ExcOf(oc) == IF oc = "PE" THEN PE ELSE SCE

\* ---------------------------------------------------------------- endpoint
\* cfg: [vi, ni, vo, no, enc] = validate/normalise inbound, validate/normalise outbound, header_encoding set
DefaultCfg == [vi |-> TRUE, ni |-> TRUE, vo |-> TRUE, no |-> TRUE, enc |-> FALSE]
InitEp(role, cfg, maxClosed) ==
  [role |-> role, cfg |-> cfg, maxClosed |-> maxClosed, conn |-> "IDLE",
   streams |-> <<>>, sord |-> <<>>, closed |-> <<>>, hiIn |-> 0, hiOut |-> 0,
   ls |-> InitSettings(role = "c", TRUE), rs |-> InitSettings(role # "c", FALSE),
   ow |-> 65535, iw |-> WM(65535), mof |-> 16384, mif |-> 16384, hdrCap |-> 65536,
   un |-> 0,                    \* (ghost) flow-controlled octets received on live streams and not yet acknowledged by the application
   nblk |-> 0,                  \* header blocks this endpoint's HPACK encoder has been asked to write so far
   enc |-> EncInit,             \* HPACK encoder table-size state (follows the peer's HEADER_TABLE_SIZE)
   decSize |-> 4096,            \* table size the HPACK decoder currently uses (follows the size updates it decoded)
   decMax |-> 4096,             \* largest table size the HPACK decoder accepts (own acknowledged HEADER_TABLE_SIZE)
   lsF |-> <<>>,                \* SETTINGS frames sent and not yet acknowledged, as the PEER counts them (one per frame)
   lsH |-> <<>>,                \* per SETTINGS frame sent and not yet acknowledged: <<v>> if it carries HEADER_TABLE_SIZE = v, else <<>>
   penc |-> EncInit,            \* the harness peer's HPACK encoder (single-endpoint mode): it starts using a HEADER_TABLE_SIZE
                                \* when it acknowledges the SETTINGS frame that carried it
   needPre |-> role = "s",      \* a server's frame buffer first expects the client preface
   hb |-> <<>>,                 \* the frame parser's header-block buffer: <<>> or <<[first, n, nb]>> (first fragment, number of
                                \* fragments so far, block octets so far)
   pend |-> <<>>,               \* received frames still in the input buffer: those behind the frame that made an earlier
                                \* receive_data() raise (they are handled first by the next call)
   out |-> <<>>,                \* frames appended to the output buffer and not yet taken by data_to_send
   hd |-> FALSE,                \* the HPACK encoder context is no longer predictable (a failed send consumed it)
   sat |-> FALSE,               \* a number of the implementation left the 32-bit range this model computes in
   dl |-> FALSE,                \* the HPACK decoder gave up in the middle of a block (its table is no longer predictable)
   inited |-> FALSE,            \* initiate_connection has been called (the connection state machine does not know)
   gl |-> <<>>,                 \* (ghost for C18) the last-stream-id the application announced itself with close_connection
   eg |-> <<>>,                 \* (ghost for C07) per stream id, how far the events reported for it have got: see EgNext
   upgRet |-> <<>>,             \* the HTTP2-Settings payload initiate_upgrade_connection returned (client)
   dev |-> {}]

Has(ep, sid) == sid \in DOMAIN ep.streams
MyParity(ep) == IF ep.role = "c" THEN 1 ELSE 0
Outbound(ep, sid) == sid % 2 = MyParity(ep)
Hi(ep, sid) == IF Outbound(ep, sid) THEN ep.hiOut ELSE ep.hiIn
Put(ep, sid, s) == [ep EXCEPT !.streams[sid] = s]
PutR(ep, sid, r) == LET e == Put(ep, sid, r.st) IN IF r.mis THEN Mark(e, "misuse_closes_stream") ELSE e
\* Nothing stops a stream id of 2^31 or more given to a call: the frame serialiser keeps its low 31 bits (deviation
\* stream_id_above_max).
WireFrame(f) == LET g == IF "sid" \in DOMAIN f THEN [f EXCEPT !.sid = WireSid(@)] ELSE f
                IN IF "pid" \in DOMAIN g THEN [g EXCEPT !.pid = WireSid(@)] ELSE g
BigId(f) == ("sid" \in DOMAIN f /\ f.sid < 0) \/ ("pid" \in DOMAIN f /\ f.pid < 0)
Emit(ep, frames) ==
  LET e1 == [ep EXCEPT !.out = @ \o [i \in 1..Len(frames) |-> WireFrame(frames[i])]]
  IN IF \E i \in 1..Len(frames) : BigId(frames[i]) THEN Mark(e1, "stream_id_above_max") ELSE e1

\* H2ConnectionStateMachine.process_input
ConnStep(ep, input) ==
  IF <<ep.conn, input>> \in DOMAIN ConnTable
  THEN [ok |-> TRUE, ep |-> [ep EXCEPT !.conn = ConnTable[<<ep.conn, input>>]]]
  ELSE [ok |-> FALSE, ep |-> IF ep.conn # "CLOSED" /\ input \in {"SEND_HEADERS", "SEND_PUSH_PROMISE", "SEND_DATA",
                                     "SEND_WINDOW_UPDATE", "SEND_PING", "SEND_SETTINGS", "SEND_RST_STREAM",
                                     "SEND_PRIORITY", "SEND_ALTERNATIVE_SERVICE"}
                             THEN Mark([ep EXCEPT !.conn = "CLOSED"], "misuse_closes_connection")
                             ELSE [ep EXCEPT !.conn = "CLOSED"]]

\* closed-stream memory: _open_streams moves every closed stream (creation order) into a FIFO of bounded size
ClosedSids(ep) == SelectSeq(ep.sord, LAMBDA sid : ep.streams[sid].st = "CLOSED")
Trim(seq, cap) == IF Len(seq) > cap THEN SubSeq(seq, Len(seq) - cap + 1, Len(seq)) ELSE seq
Cleanup(ep) ==
  LET dead == ClosedSids(ep)
      deadSet == {dead[i] : i \in 1..Len(dead)}
      mem == [i \in 1..Len(dead) |-> [sid |-> dead[i], by |-> ep.streams[dead[i]].by]]
  IN IF dead = <<>> THEN ep
     ELSE [ep EXCEPT !.streams = [sid \in DOMAIN ep.streams \ deadSet |-> ep.streams[sid]],
                     !.sord = SelectSeq(ep.sord, LAMBDA sid : sid \notin deadSet),
                     !.closed = Trim(ep.closed \o mem, ep.maxClosed)]
CountOpen(ep, parity) == Cardinality({sid \in DOMAIN ep.streams : StreamOpen(ep.streams[sid]) /\ sid % 2 = parity})
ClosedBy(ep, sid) ==
  IF Has(ep, sid) THEN ep.streams[sid].by
  ELSE LET S == {i \in 1..Len(ep.closed) : ep.closed[i].sid = sid} IN
       IF S = {} THEN "N" ELSE ep.closed[CHOOSE i \in S : TRUE].by
ByReset(ep, sid) == ClosedBy(ep, sid) \in {"RRST", "SRST"}
ByEnd(ep, sid) == ClosedBy(ep, sid) \in {"RES", "SES"}

\* _get_stream_by_id: "ok" | NoSuchStreamError | StreamClosedError
Lookup(ep, sid) == IF Has(ep, sid) THEN OK ELSE IF UGt(sid, Hi(ep, sid)) THEN NSE ELSE SCE
\* _begin_new_stream (after the "not in streams" test)
Begin(ep, sid, allowedParity) ==
  IF ~UGt(sid, Hi(ep, sid)) THEN [ok |-> FALSE, ep |-> ep, x |-> Exc("StreamIDTooLowError", 1)]
  ELSE IF sid % 2 # allowedParity THEN [ok |-> FALSE, ep |-> ep, x |-> PE]
  ELSE LET e1 == [ep EXCEPT !.streams = (sid :> NewStream(ep)) @@ @, !.sord = Append(@, sid)]
       IN [ok |-> TRUE, x |-> OK,
           ep |-> IF Outbound(ep, sid) THEN [e1 EXCEPT !.hiOut = sid] ELSE [e1 EXCEPT !.hiIn = sid]]
GetOrCreate(ep, sid, allowedParity) ==
  IF Has(ep, sid) THEN [ok |-> TRUE, ep |-> ep, x |-> OK] ELSE Begin(ep, sid, allowedParity)

CR(ep, r) == [ep |-> ep, r |-> r]
Dirty(ep) == [ep EXCEPT !.hd = TRUE]
KindOfSend(ev) == CASE ev = "_RequestSent" -> "req" [] ev = "_ResponseSent" -> "resp" [] ev = "_TrailersSent" -> "trl"
                    [] ev = "_PushedRequestSent" -> "push"
KindOfRecv(ev) == CASE ev = "Req" -> "req" [] ev \in {"Resp", "Info"} -> "resp" [] ev = "Trl" -> "trl" [] ev = "Push" -> "push"

\* ---------------------------------------------------------------- public calls
\* _add_frame_priority: <<w, dep, excl>> each optional
PrioPresent(pr) == pr # <<>> /\ (pr[1] # <<>> \/ pr[2] # <<>> \/ pr[3] # <<>>)
PrioBad(sid, pr) == (pr[2] # <<>> /\ pr[2][1] = sid) \/ (pr[1] # <<>> /\ (pr[1][1] > 256 \/ pr[1][1] < 1))
PrioFields(pr) == <<IF pr[1] = <<>> THEN 16 ELSE pr[1][1], IF pr[2] = <<>> THEN 0 ELSE pr[2][1],
                    IF pr[3] = <<>> THEN FALSE ELSE pr[3][1]>>

Initiate(ep) ==
  LET c1 == ConnStep(ep, "SEND_SETTINGS") IN
  IF ~c1.ok THEN CR(c1.ep, PE)
  ELSE LET ids == SelectSeq(ep.ls.ord, LAMBDA id : id \notin ep.ls.hn)        \* the settings that have a value in force
           pairs == [i \in 1..Len(ids) |-> <<ids[i], SCur(ep.ls, ids[i])>>]
       \* the initial frame changes nothing (its values are in force already): it counts as an empty change set
           \* nothing stops a second call: it writes the preface (client) and the full SETTINGS frame again
           e1 == IF ep.conn # "IDLE" THEN Mark(c1.ep, "second_initiate_emits_preamble") ELSE c1.ep
       IN CR(Emit([e1 EXCEPT !.inited = TRUE, !.lsF = Append(@, <<>>), !.lsH = Append(@, IF SHas(ep.ls, 1) THEN <<SCur(ep.ls, 1)>> ELSE <<>>)],
                  (IF ep.role = "c" THEN <<FPreface>> ELSE <<>>) \o <<FSettings(pairs)>>), OK)

StreamSendHeaders(ep, c) ==
  LET sid == c.sid
      s == ep.streams[sid]
      info == s.cl # "T" /\ IsInformational(c.h)
  IN IF info /\ c.es THEN CR(ep, PE)
     ELSE LET p == Process(s, IF info THEN "SEND_INFORMATIONAL_HEADERS" ELSE "SEND_HEADERS") IN
     IF p.oc # "ok" THEN CR(PutR(ep, sid, p), ExcOf(p.oc))
     ELSE LET pipe == OutPipeline(c.h, KindOfSend(p.ev), ep.cfg.no, ep.cfg.vo)
              e1 == [Put(ep, sid, p.st) EXCEPT !.nblk = @ + 1]
          \* (the encoder writes its pending table-size updates before it looks at the first field: a block that is
          \* then refused takes them with it)
          IN IF ~pipe.ok
             THEN CR(Mark([(IF pipe.clean /\ ~ep.enc.rz THEN e1 ELSE Dirty(e1)) EXCEPT !.enc = EncAfter(@)], "failed_send_partial_state"), PE)
             ELSE LET s2 == IF c.es THEN Process(p.st, "SEND_END_STREAM").st ELSE p.st IN
                  IF s2.ts /\ ~c.es THEN CR(Mark([Dirty(Put(ep, sid, s2)) EXCEPT !.enc = EncAfter(@)], "failed_send_partial_state"), PE)
                  ELSE LET s3 == [s2 EXCEPT !.auth = IF s2.cl = "T" /\ @ = "None" THEN AuthorityOf(c.h) ELSE @,
                                            !.meth = MethodOf(c.h),
                                            !.rmeth = IF s2.cl = "T" /\ ~s.hs THEN MethodOf(c.h) ELSE @]
                           \* a reserved (pushed) stream becomes open without any look at the peer's MAX_CONCURRENT_STREAMS
                           bypass == s.st = "RESERVED_LOCAL" /\ StreamOpen(s3) /\ ~WithinConcurrency(CountOpen(ep, MyParity(ep)), ep.rs)
                           e3 == IF bypass THEN Mark(Put(ep, sid, s3), "push_bypasses_stream_limit") ELSE Put(ep, sid, s3)
                           \* more than one pending table size: the encoder signals all of them, not the smallest and the last
                           e4 == [(IF Len(EncTsu(ep.enc)) > 1 THEN Mark(e3, "hpack_size_update_intermediate") ELSE e3)
                                     EXCEPT !.enc = EncAfter(@), !.nblk = ep.nblk + 1]
                           sz0 == SizesOf(ep, c, 0)
                           sz5 == SizesOf(ep, c, 5)
                       IN IF ~PrioPresent(c.pr) THEN CR(Emit(e4, <<AddSizes(FHeaders(sid, c.es, pipe.h, <<>>, EncTsu(ep.enc)), sz0)>>), OK)
                          ELSE IF ep.role = "s" THEN CR(Mark(Dirty(e4), "failed_send_partial_state"), Exc("RFC1122Error", -1))
                          ELSE IF PrioBad(sid, c.pr) THEN CR(Mark(Dirty(e4), "failed_send_partial_state"), PE)
                          \* the frames are written to the output buffer and only then checked against the limit
                          ELSE IF TooBig(sz5, ep.mof)
                          THEN CR(Mark(Emit(e4, <<AddSizes(FHeaders(sid, c.es, pipe.h, PrioFields(c.pr), EncTsu(ep.enc)), sz5)>>),
                                       "header_frame_exceeds_limit"), AssertionFailure)
                          ELSE CR(Emit(e4, <<AddSizes(FHeaders(sid, c.es, pipe.h, PrioFields(c.pr), EncTsu(ep.enc)), sz5)>>), OK)

SendHeaders(ep, c) ==
  LET isNew == ~Has(ep, c.sid)
      e0 == IF isNew THEN Cleanup(ep) ELSE ep
  IN IF isNew /\ ~WithinConcurrency(CountOpen(e0, MyParity(ep)), ep.rs) THEN CR(e0, Exc("TooManyStreamsError", 1))
     ELSE LET c1 == ConnStep(e0, "SEND_HEADERS") IN
     IF ~c1.ok THEN CR(c1.ep, PE)
     ELSE LET g == GetOrCreate(c1.ep, c.sid, MyParity(ep)) IN
     IF ~g.ok THEN CR(g.ep, g.x)
     ELSE LET r == StreamSendHeaders(g.ep, c)
              opened == isNew /\ ep.role = "s"
          IN IF opened THEN CR(Mark(r.ep, "server_opens_stream"), r.r) ELSE r

SendData(ep, c) ==
  LET fsz == c.n + (IF c.pad >= 0 THEN c.pad + 1 ELSE 0)
      lk == Lookup(ep, c.sid)
  IN IF c.pad > 255 THEN CR(ep, Exc("ValueError", -1))
     ELSE IF lk.c # "ok" THEN CR(ep, lk)
     ELSE IF fsz > Min(ep.ow, ep.streams[c.sid].ow) THEN CR(ep, FCE)
     ELSE IF fsz > ep.mof THEN CR(ep, Exc("FrameTooLargeError", 6))
     ELSE LET c1 == ConnStep(ep, "SEND_DATA") IN
     IF ~c1.ok THEN CR(c1.ep, PE)
     ELSE LET s == ep.streams[c.sid]
              p == Process(s, "SEND_DATA")
          IN IF p.oc # "ok" THEN CR(PutR(c1.ep, c.sid, p), ExcOf(p.oc))
             ELSE LET s2 == IF c.es THEN Process(p.st, "SEND_END_STREAM").st ELSE p.st
                      s3 == [s2 EXCEPT !.ow = @ - fsz]
                      e2 == [Put(c1.ep, c.sid, s3) EXCEPT !.ow = @ - fsz]
                      e3 == IF ~s.hs THEN Mark(e2, "data_before_headers") ELSE e2
                  IN CR(Emit(e3, <<FData(c.sid, c.es, c.n, IF c.n = 0 THEN "-" ELSE c.tag, c.pad)>>), OK)

EndStream(ep, c) ==
  LET c1 == ConnStep(ep, "SEND_DATA") IN
  IF ~c1.ok THEN CR(c1.ep, PE)
  ELSE LET lk == Lookup(c1.ep, c.sid) IN
  IF lk.c # "ok" THEN CR(c1.ep, lk)
  ELSE LET s == ep.streams[c.sid]
           p == Process(s, "SEND_END_STREAM")
       IN IF p.oc # "ok" THEN CR(PutR(c1.ep, c.sid, p), ExcOf(p.oc))
          ELSE LET e2 == Put(c1.ep, c.sid, p.st)
                   e3 == IF ~s.hs THEN Mark(e2, "data_before_headers") ELSE e2
               IN CR(Emit(e3, <<FData(c.sid, TRUE, 0, "-", -1)>>), OK)

IncrementWindow(ep, c) ==
  IF c.n < 1 THEN CR(ep, Exc("ValueError", -1))
  ELSE LET c1 == ConnStep(ep, "SEND_WINDOW_UPDATE") IN
  IF ~c1.ok THEN CR(c1.ep, PE)
  ELSE IF c.sid = <<>>
       THEN IF Overflows(ep.iw.cur, c.n) THEN CR(c1.ep, FCE)
            ELSE CR(Emit([c1.ep EXCEPT !.iw = WMOpen(@, c.n)], <<FWU(0, c.n)>>), OK)
       ELSE LET sid == c.sid[1]
                lk == Lookup(c1.ep, sid)
            IN IF lk.c # "ok" THEN CR(c1.ep, lk)
               ELSE LET p == Process(ep.streams[sid], "SEND_WINDOW_UPDATE") IN
                    IF p.oc # "ok" THEN CR(PutR(c1.ep, sid, p), ExcOf(p.oc))
                    ELSE IF Overflows(p.st.iw.cur, c.n) THEN CR(Put(c1.ep, sid, p.st), FCE)
                    ELSE CR(Emit(Put(c1.ep, sid, [p.st EXCEPT !.iw = WMOpen(@, c.n)]), <<FWU(sid, c.n)>>), OK)

PushStream(ep, c) ==
  IF SCur(ep.rs, 2) = 0 THEN CR(ep, PE)
  ELSE LET c1 == ConnStep(ep, "SEND_PUSH_PROMISE") IN
  IF ~c1.ok THEN CR(c1.ep, PE)
  ELSE LET lk == Lookup(c1.ep, c.sid) IN
  IF lk.c # "ok" THEN CR(c1.ep, lk)
  ELSE IF c.sid % 2 = 0 THEN CR(c1.ep, PE)
  ELSE LET b == Begin(c1.ep, c.pid, 0) IN
  IF ~b.ok THEN CR(c1.ep, b.x)
  ELSE LET p == Process(b.ep.streams[c.sid], "SEND_PUSH_PROMISE") IN
       IF p.oc # "ok" THEN CR(Mark(PutR(b.ep, c.sid, p), "failed_send_partial_state"), ExcOf(p.oc))
       ELSE LET pipe == OutPipeline(c.h, "push", ep.cfg.no, ep.cfg.vo)
                e2 == [Put(b.ep, c.sid, p.st) EXCEPT !.nblk = @ + 1]
            IN IF ~pipe.ok THEN CR(Mark([(IF pipe.clean /\ ~ep.enc.rz THEN e2 ELSE Dirty(e2)) EXCEPT !.enc = EncAfter(@)], "failed_send_partial_state"), PE)
               ELSE LET q == Process(e2.streams[c.pid], "SEND_PUSH_PROMISE")
                        e5 == IF Len(EncTsu(ep.enc)) > 1 THEN Mark(Put(e2, c.pid, q.st), "hpack_size_update_intermediate")
                              ELSE Put(e2, c.pid, q.st)
                        sz4 == SizesOf(ep, c, 4)
                        fr == AddSizes(FPush(c.sid, c.pid, pipe.h, EncTsu(ep.enc)), sz4)
                    IN IF TooBig(sz4, ep.mof)
                       THEN CR(Mark(Emit([e5 EXCEPT !.enc = EncAfter(@)], <<fr>>), "header_frame_exceeds_limit"), AssertionFailure)
                       ELSE CR(Emit([e5 EXCEPT !.enc = EncAfter(@)], <<fr>>), OK)

Ping(ep, c) ==
  IF c.n # 8 THEN CR(ep, Exc("ValueError", -1))
  ELSE LET c1 == ConnStep(ep, "SEND_PING") IN
       IF ~c1.ok THEN CR(c1.ep, PE) ELSE CR(Emit(c1.ep, <<FPing(FALSE, c.tag)>>), OK)

ResetStream(ep, c) ==
  LET c1 == ConnStep(ep, "SEND_RST_STREAM") IN
  IF ~c1.ok THEN CR(c1.ep, PE)
  ELSE LET lk == Lookup(c1.ep, c.sid) IN
  IF lk.c # "ok" THEN CR(c1.ep, lk)
  ELSE LET p == Process(ep.streams[c.sid], "SEND_RST_STREAM") IN
       IF p.oc # "ok" THEN CR(PutR(c1.ep, c.sid, p), ExcOf(p.oc))
       ELSE CR(Emit(Put(c1.ep, c.sid, p.st), <<FRst(c.sid, c.code)>>), OK)

CloseConnection(ep, c) ==
  LET c1 == ConnStep(ep, "SEND_GOAWAY") IN
  \* (the connection keeps no memory of what it announced: a later error GOAWAY carries the highest peer stream id again.  The
  \* ghost gl records the announcement, so that the state reached with an explicit last-stream-id is explored in its own right)
  CR(Emit([c1.ep EXCEPT !.gl = IF c.last = <<>> THEN @ ELSE c.last], <<FGoAway(IF c.last = <<>> THEN ep.hiIn ELSE c.last[1], c.code, IF c.tag = <<>> THEN "-" ELSE c.tag[1])>>), OK)

UpdateSettings(ep, c) ==
  LET c1 == ConnStep(ep, "SEND_SETTINGS") IN
  IF ~c1.ok THEN CR(c1.ep, PE)
  ELSE LET u == SUpdate(ep.ls, c.s) IN
       IF u.code # 0
       THEN CR(IF u.S # ep.ls THEN Mark([c1.ep EXCEPT !.ls = u.S], "update_settings_partial") ELSE c1.ep,
               Exc("InvalidSettingsValueError", u.code))
       ELSE \* the frame serialiser (hyperframe) writes only the low 8 bits of a setting identifier
            LET wire == [i \in 1..Len(c.s) |-> <<c.s[i][1] % 256, c.s[i][2]>>]
                hts == SelectSeq(wire, LAMBDA q : q[1] = 1)
                e1 == [c1.ep EXCEPT !.ls = u.S, !.lsF = Append(@, c.s),
                                    !.lsH = Append(@, IF hts = <<>> THEN <<>> ELSE <<hts[Len(hts)][2]>>)]
            IN CR(Emit(IF wire # c.s THEN Mark(e1, "setting_id_truncated") ELSE e1, <<FSettings(wire)>>), OK)

AdvertiseAltSvc(ep, c) ==
  IF c.org # <<>> /\ c.sid # <<>> THEN CR(ep, Exc("ValueError", -1))
  ELSE LET c1 == ConnStep(ep, "SEND_ALTERNATIVE_SERVICE")
           e1 == IF c1.ok /\ ep.role = "c" THEN Mark(c1.ep, "client_advertises_idle") ELSE c1.ep
       IN IF ~c1.ok THEN CR(c1.ep, PE)
          ELSE IF c.org # <<>> THEN CR(Emit(e1, <<FAlt(0, c.org[1], c.fld)>>), OK)
          ELSE LET sid == c.sid[1]
                   lk == Lookup(e1, sid)
               IN IF lk.c # "ok" THEN CR(e1, lk)
                  ELSE LET p == Process(ep.streams[sid], "SEND_ALTERNATIVE_SERVICE") IN
                       IF p.oc # "ok" THEN CR(PutR(e1, sid, p), ExcOf(p.oc))
                       ELSE CR(Emit(Put(e1, sid, p.st), <<FAlt(sid, "", c.fld)>>), OK)

Prioritize(ep, c) ==
  IF ep.role = "s" THEN CR(ep, Exc("RFC1122Error", -1))
  ELSE LET c1 == ConnStep(ep, "SEND_PRIORITY")
           pr == <<c.w, c.dep, c.excl>>
       IN IF ~c1.ok THEN CR(c1.ep, PE)
          ELSE IF PrioBad(c.sid, pr) THEN CR(c1.ep, PE)
          ELSE LET f == PrioFields(pr) IN CR(Emit(c1.ep, <<FPrio(c.sid, f[1], f[2], f[3])>>), OK)

AckData(ep, c) ==
  IF c.sid <= 0 \/ c.n < 0 THEN CR(ep, Exc("ValueError", -1))
  ELSE LET cw == WMProcess(ep.iw, c.n)
           e1 == [ep EXCEPT !.iw = cw.w]
           f1 == IF cw.inc # 0 THEN <<FWU(0, cw.inc)>> ELSE <<>>
           lk == Lookup(ep, c.sid)
           closedMark(e, fr) == IF fr # <<>> /\ ep.conn = "CLOSED" THEN Mark(e, "ack_data_when_closed") ELSE e
       IN IF lk.c = "NoSuchStreamError" THEN CR(ep, NSE)       \* the lookup comes first: nothing has changed (repo fix)
          ELSE IF lk.c = "StreamClosedError" \/ ~StreamOpen(ep.streams[c.sid])
          THEN CR(closedMark(Emit([e1 EXCEPT !.un = Max0(@ - c.n)], f1), f1), OK)
          ELSE LET sw == WMProcess(ep.streams[c.sid].iw, c.n)
                   f2 == f1 \o (IF sw.inc # 0 THEN <<FWU(c.sid, sw.inc)>> ELSE <<>>)
               IN CR(closedMark(Emit([e1 EXCEPT !.streams[c.sid].iw = sw.w, !.streams[c.sid].un = Max0(@ - c.n),
                                                !.un = Max0(@ - c.n)], f2), f2), OK)

OpenCount(ep, parity) == LET e1 == Cleanup(ep) IN [ep |-> e1, r |-> [c |-> "ok", e |-> -1, v |-> CountOpen(e1, parity)]]

\* ---------------------------------------------------------------- received frames
\* result: x = OK or the exception that escapes the frame handler; ev = events of this frame
RR(ep, x, ev) == [ep |-> ep, x |-> x, ev |-> ev]

RecvPriorityPart(ep, sid, pr) ==       \* _receive_priority_frame on a PRIORITY frame or the priority part of HEADERS
  LET c1 == ConnStep(ep, "RECV_PRIORITY") IN
  IF ~c1.ok THEN RR(c1.ep, PE, <<>>)
  ELSE IF pr[2] = sid THEN RR(c1.ep, PE, <<>>)
  ELSE RR(c1.ep, OK, <<EvPrio(sid, pr[1], pr[2], pr[3])>>)

\* _decode_headers (hpack.Decoder.decode): x = "ok" or the exception, size = the table size the decoder ends up with.
\* In the decoder's order: every table-size update at the head of the block must be within the acknowledged
\* HEADER_TABLE_SIZE; then the fields, whose running size is bounded by max_header_list_size; at the end the table
\* size in use must (still) be within the acknowledged HEADER_TABLE_SIZE.
BigField == 70037          \* RFC 7541 size of the field the harness adds to make a block "big"
DecodeHP(ep, f) ==
  LET tsu == f.tsu
      bad == {i \in 1..Len(tsu) : UGt(tsu[i], ep.decMax)}
      over == bad # {}
      first == IF over THEN CHOOSE i \in bad : \A j \in bad : i <= j ELSE 0
      sizeBefore == IF first > 1 THEN tsu[first - 1] ELSE ep.decSize          \* the updates in front of the refused one were applied
      size == IF tsu = <<>> THEN ep.decSize ELSE tsu[Len(tsu)]
      listSize == ListSize(f.h) + (IF f.blk = "big" THEN BigField ELSE 0)
      \* a block given as octets (bp): h holds the fields in front of the representation the decoder refuses; the decoder
      \* checks the running list size after every field, so an over-long list is reported before the bad octets are reached
      prefixOver == "bp" \in DOMAIN f /\ f.bp /\ ep.hdrCap >= 0 /\ ListSize(f.h) > ep.hdrCap
  IN IF f.blk = "bad" THEN [x |-> IF prefixOver THEN Exc("DenialOfServiceError", 11) ELSE PE, size |-> ep.decSize]
     ELSE IF over THEN [x |-> PE, size |-> sizeBefore]
     ELSE IF ep.hdrCap >= 0 /\ listSize > ep.hdrCap THEN [x |-> Exc("DenialOfServiceError", 11), size |-> size]
     ELSE IF UGt(size, ep.decMax) THEN [x |-> PE, size |-> size]
     ELSE [x |-> OK, size |-> size]

\* stream.receive_headers
StreamRecvHeaders(ep, f) ==
  LET sid == f.sid
      s == ep.streams[sid]
      info == IsInformational(f.h)
  IN IF info /\ f.es THEN RR(ep, PE, <<>>)
     ELSE LET p1 == Process(s, IF info THEN "RECV_INFORMATIONAL_HEADERS" ELSE "RECV_HEADERS") IN
     IF p1.oc = "PE" THEN RR(Put(ep, sid, p1.st), PE, <<>>)
     ELSE IF p1.oc = "SCE"
          THEN RR(Put(ep, sid, p1.st), SCE, IF p1.ev = "ResetLocal" THEN <<EvReset(sid, 5, FALSE)>> ELSE <<>>)
     ELSE LET s2 == IF f.es THEN Process(p1.st, "RECV_END_STREAM").st ELSE p1.st
              head == s2.meth = "HEAD"
              clBad == ~head /\ HasCL(f.h) /\ ~CLTok(f.h).ci
              s3 == IF head THEN [s2 EXCEPT !.eclSet = TRUE, !.ecl = 0]
                    ELSE IF HasCL(f.h) /\ CLTok(f.h).ci THEN [s2 EXCEPT !.eclSet = TRUE, !.ecl = CLTok(f.h).civ]
                    ELSE s2
              \* what C16 demands of this message (ghost state): its declared length; whether it has no content by definition
              \* (response to HEAD -- the request method as first sent --, 204, 304; a 1xx block declares nothing)
              status == IF HasName(f.h, ":status") THEN f.h[FirstIdx(f.h, ":status")].v ELSE "None"
              s3g == IF p1.ev \in {"Req", "Resp"}
                     THEN [s3 EXCEPT !.scl = IF HasCL(f.h) /\ CLTok(f.h).ci THEN <<CLTok(f.h).civ>> ELSE <<>>,
                                     !.snc = p1.ev = "Resp" /\ (s.rmeth = "HEAD" \/ status \in {"204", "304"})]
                     ELSE s3
              \* END_STREAM on a header block ends the message: a declared length the body did not reach is accepted
              shortEnd == f.es /\ p1.ev \in {"Req", "Resp", "Trl"} /\ ~s3g.snc /\ s3g.scl # <<>> /\ s3g.scl[1] # s3g.acl
              \* the response on a reserved (pushed) stream opens it without any look at the own MAX_CONCURRENT_STREAMS
              bypass == s.st = "RESERVED_REMOTE" /\ StreamOpen(s3) /\ ~WithinConcurrency(CountOpen(ep, 1 - MyParity(ep)), ep.ls)
              e3a == IF bypass THEN Mark(Put(ep, sid, s3g), "push_bypasses_stream_limit") ELSE Put(ep, sid, s3g)
              e3 == IF shortEnd THEN Mark(e3a, "content_length_rule_differs") ELSE e3a
          IN IF clBad THEN RR(Put(ep, sid, s2), PE, <<>>)
             ELSE IF p1.ev = "Trl" /\ ~f.es THEN RR(e3, PE, <<>>)
             ELSE LET pipe == InPipeline(f.h, KindOfRecv(p1.ev), ep.cfg.ni, ep.cfg.vi, ep.cfg.enc) IN
                  IF pipe.c # "ok" THEN RR(e3, Exc(pipe.c, IF pipe.c = "ProtocolError" THEN 1 ELSE -1), <<>>)
                  ELSE RR(e3, OK, <<EvHdr(p1.ev, sid, pipe.h, IF f.es /\ p1.ev # "Info" THEN 2 ELSE -1, -1)>>
                                  \o (IF f.es THEN <<EvEnd(sid)>> ELSE <<>>))

RecvHeaders(ep, f) ==
  LET isNew == ~Has(ep, f.sid)
      e0 == IF isNew THEN Cleanup(ep) ELSE ep
  IN IF isNew /\ ~WithinConcurrency(CountOpen(e0, 1 - MyParity(ep)), ep.ls) THEN RR(e0, Exc("TooManyStreamsError", 1), <<>>)
     ELSE LET d == DecodeHP(e0, f) IN
     IF d.x.c # "ok" THEN RR([(IF d.x.c = "ProtocolError" THEN Mark(e0, "hpack_error_code") ELSE e0) EXCEPT !.dl = TRUE, !.decSize = d.size], d.x, <<>>)
     ELSE LET c1 == ConnStep([e0 EXCEPT !.decSize = d.size], "RECV_HEADERS") IN
     IF ~c1.ok THEN RR(c1.ep, PE, <<>>)
     ELSE LET g == GetOrCreate(c1.ep, f.sid, 1 - MyParity(ep)) IN
     IF ~g.ok THEN RR(g.ep, [g.x EXCEPT !.c = IF @ = "StreamIDTooLowError" THEN "TooLow" ELSE @], <<>>)
     ELSE LET g1 == IF isNew /\ ep.role = "c" THEN Mark(g.ep, "client_accepts_request") ELSE g.ep
              r == StreamRecvHeaders(g1, f)
          IN IF r.x.c # "ok" \/ f.pr = <<>> THEN r
             ELSE LET q == RecvPriorityPart(r.ep, f.sid, f.pr) IN
                  IF q.x.c # "ok" THEN RR(q.ep, q.x, <<>>)
                  ELSE RR(q.ep, OK, <<[r.ev[1] EXCEPT !.pu = Len(r.ev) + 1]>> \o Tail(r.ev) \o q.ev)

\* _handle_data_on_closed_stream
DataOnClosed(ep, sid, fcl, evs) ==
  LET cw == WMProcess(ep.iw, fcl) IN
  RR(Emit([ep EXCEPT !.iw = cw.w], (IF cw.inc # 0 THEN <<FWU(0, cw.inc)>> ELSE <<>>) \o <<FRst(sid, 5)>>), OK, evs)

RecvData(ep, f) ==
  LET fcl == f.n + (IF f.pad >= 0 THEN f.pad + 1 ELSE 0)
      c1 == ConnStep(ep, "RECV_DATA")
  IN IF ~c1.ok THEN RR(c1.ep, PE, <<>>)
     ELSE LET e1 == [c1.ep EXCEPT !.iw = WMConsume(@, fcl)] IN
     IF fcl > 0 /\ e1.iw.cur < 0 THEN RR(e1, FCE, <<>>)          \* an empty frame consumes nothing: never a flow-control error
     ELSE LET lk == Lookup(e1, f.sid) IN
     IF lk.c = "NoSuchStreamError" THEN RR(e1, NSE, <<>>)
     ELSE IF lk.c = "StreamClosedError" THEN DataOnClosed(e1, f.sid, fcl, <<>>)
     ELSE LET s == e1.streams[f.sid]
              p == Process(s, "RECV_DATA")
          IN IF p.oc = "PE" THEN RR(Put(e1, f.sid, p.st), PE, <<>>)
             ELSE IF p.oc = "SCE"
                  THEN DataOnClosed(Put(e1, f.sid, p.st), f.sid, fcl,
                                    IF p.ev = "ResetLocal" THEN <<EvReset(f.sid, 5, FALSE)>> ELSE <<>>)
             ELSE LET s1 == [p.st EXCEPT !.iw = WMConsume(@, fcl)] IN
                  IF fcl > 0 /\ s1.iw.cur < 0 THEN RR(Put(e1, f.sid, s1), FCE, <<>>)
                  ELSE LET s2 == [s1 EXCEPT !.acl = @ + f.n]
                           badLen == s2.eclSet /\ (s2.ecl < s2.acl \/ (f.es /\ s2.ecl # s2.acl))
                           \* what C16 demands: a no-content response is refused exactly when it carries payload; otherwise the
                           \* declared length decides
                           strictBad == IF s2.snc THEN f.n > 0
                                        ELSE s2.scl # <<>> /\ (s2.scl[1] < s2.acl \/ (f.es /\ s2.scl[1] # s2.acl))
                           em == IF strictBad # badLen THEN Mark(e1, "content_length_rule_differs") ELSE e1
                       IN IF badLen THEN RR(Put(em, f.sid, s2), Exc("InvalidBodyLengthError", 1), <<>>)
                          ELSE LET s3 == [(IF f.es THEN Process(s2, "RECV_END_STREAM").st ELSE s2) EXCEPT !.un = @ + fcl] IN
                               RR([Put(em, f.sid, s3) EXCEPT !.un = @ + fcl], OK,
                                  <<EvData(f.sid, f.n, IF f.n = 0 THEN "-" ELSE f.tag, fcl, IF f.es THEN 2 ELSE -1)>>
                                  \o (IF f.es THEN <<EvEnd(f.sid)>> ELSE <<>>))

\* guard_increment_window over every stream in the table, in creation order; stops at the first overflow
RECURSIVE ApplyOutDelta(_, _, _)
ApplyOutDelta(ep, sids, delta) ==
  IF sids = <<>> THEN [ep |-> ep, ok |-> TRUE]
  ELSE LET sid == sids[1] IN
       IF delta > 0 /\ Overflows(ep.streams[sid].ow, delta) THEN [ep |-> ep, ok |-> FALSE]
       ELSE ApplyOutDelta([ep EXCEPT !.streams[sid].ow = @ + delta], Tail(sids), delta)
\* H2Stream._inbound_flow_control_change_from_settings over every stream
RECURSIVE ApplyInDelta(_, _, _)
ApplyInDelta(ep, sids, delta) ==
  IF sids = <<>> THEN [ep |-> ep, ok |-> TRUE]
  ELSE LET sid == sids[1]
           w == ep.streams[sid].iw
       IN IF delta > 0 /\ Overflows(w.cur, delta) THEN [ep |-> ep, ok |-> FALSE]
          \* (the code's max_window_size is unbounded; a value above 2^31-1 cannot be written here: the endpoint is
          \* flagged `sat` and its recorded executions are validated only up to that point)
          ELSE LET over == delta > 0 /\ Overflows(w.max, delta)
                   newMax == IF over THEN MAXW ELSE w.max + delta
                   w1 == WMOpen(w, delta)
                   \* a decrease that takes the window to zero (or below) while acknowledged octets are still waiting to be
                   \* credited: no WINDOW_UPDATE is emitted here, and none will be unless more DATA arrives -- which it cannot
                   stall == delta < 0 /\ w.bp > 0 /\ w1.cur <= 0
                   e1 == [ep EXCEPT !.streams[sid].iw = [w1 EXCEPT !.max = newMax], !.sat = @ \/ over]
               IN ApplyInDelta(IF stall THEN Mark(e1, "settings_shrink_stalls_window") ELSE e1, Tail(sids), delta)

RecvSettings(ep, f) ==
  LET c1 == ConnStep(ep, "RECV_SETTINGS") IN
  IF ~c1.ok THEN RR(c1.ep, PE, <<>>)
  ELSE IF f.ack
  THEN \* _local_settings_acked
       LET a == SAck(ep.ls)
           frame == IF ep.lsF = <<>> THEN <<>> ELSE Collapse(ep.lsF[1])         \* the frame this ACK answers
           strict == [i \in 1..Len(frame) |-> <<frame[i][1], frame[i][2]>>]
           asBuilt == [i \in 1..Len(a.ch) |-> <<a.ch[i][1], a.ch[i][3]>>]
           ht == ChangeOf(a.ch, 1)
           e0 == [c1.ep EXCEPT !.ls = a.S, !.lsF = IF @ = <<>> THEN @ ELSE Tail(@)]
           e1 == IF strict # asBuilt THEN Mark(e0, "ack_per_key") ELSE e0
           iws == ChangeOf(a.ch, 4)
           d == IF iws = None THEN [ep |-> e1, ok |-> TRUE] ELSE ApplyInDelta(e1, e1.sord, iws[1][3] - iws[1][2][1])
           hl == ChangeOf(a.ch, 6)
           mf == ChangeOf(a.ch, 5)
           \* (in the code's order: windows first -- a window overflow leaves the three limits below unapplied --, then
           \* header-list cap, frame-size limit, decoder table size)
           e2 == [d.ep EXCEPT !.hdrCap = IF hl = None THEN @ ELSE hl[1][3], !.mif = IF mf = None THEN @ ELSE mf[1][3],
                              !.decMax = IF ht = None THEN @ ELSE ht[1][3]]
       IN IF ~d.ok THEN RR(d.ep, FCE, <<>>)
          ELSE RR(e2, OK, <<[t |-> "SAck", ch |-> a.ch]>>)
  ELSE LET fs == Collapse(f.s)            \* the frame parser keeps one value per identifier (the last), in first-seen order
           u == SUpdate(ep.rs, fs) IN
       IF u.code # 0 THEN RR([c1.ep EXCEPT !.rs = u.S], Exc("InvalidSettingsValueError", u.code), <<>>)
       ELSE LET ev == [t |-> "RSet", ch |-> [i \in 1..Len(fs) |->
                         <<fs[i][1], IF SHas(ep.rs, fs[i][1]) THEN Some(SCur(ep.rs, fs[i][1])) ELSE None, fs[i][2]>>]]
                \* RemoteSettingsChanged.from_settings reads the values AFTER the update: still the old current ones
                c2 == ConnStep([c1.ep EXCEPT !.rs = u.S], "SEND_SETTINGS")
            IN IF ~c2.ok THEN RR(c2.ep, PE, <<>>)
               ELSE LET a == SAck(u.S)
                        e1 == [c2.ep EXCEPT !.rs = a.S]
                        iws == ChangeOf(a.ch, 4)
                        d == IF iws = None THEN [ep |-> e1, ok |-> TRUE]
                             ELSE ApplyOutDelta(e1, e1.sord, iws[1][3] - iws[1][2][1])
                        mf == ChangeOf(a.ch, 5)
                        ht == ChangeOf(a.ch, 1)
                        \* assigning the size already in use clears the encoder's "resized" flag: table sizes assigned
                        \* before and not yet signalled are then never signalled (the peer's decoder is not told)
                        dropped == ht # None /\ ht[1][3] = d.ep.enc.size /\ d.ep.enc.rz
                        e2a == [d.ep EXCEPT !.mof = IF mf = None THEN @ ELSE mf[1][3],
                                            !.enc = IF ht = None THEN @ ELSE EncSet(@, ht[1][3])]
                        \* (from here on the encoder works with a table size the peer's decoder was never told: what its blocks
                        \* decode to at the peer depends on the tables' contents, which the specification does not model)
                        e2 == IF dropped THEN Dirty(Mark(e2a, "hpack_size_update_dropped")) ELSE e2a
                    IN IF ~d.ok THEN RR(d.ep, FCE, <<>>)
                       ELSE RR(Emit(e2, <<FSettingsAck>>), OK, <<ev>>)

RecvWindowUpdate(ep, f) ==
  LET c1 == ConnStep(ep, "RECV_WINDOW_UPDATE") IN
  IF ~c1.ok THEN RR(c1.ep, PE, <<>>)
  ELSE IF f.sid = 0
  THEN IF Overflows(ep.ow, f.inc) THEN RR(c1.ep, FCE, <<>>)
       ELSE RR([c1.ep EXCEPT !.ow = @ + f.inc], OK, <<EvWU(0, f.inc)>>)
  ELSE LET lk == Lookup(c1.ep, f.sid) IN
       IF lk.c = "NoSuchStreamError" THEN RR(c1.ep, NSE, <<>>)
       ELSE IF lk.c = "StreamClosedError" THEN RR(c1.ep, OK, <<>>)
       ELSE LET s == ep.streams[f.sid]
                p == Process(s, "RECV_WINDOW_UPDATE")
            IN IF p.oc # "ok" THEN RR(Put(c1.ep, f.sid, p.st), ExcOf(p.oc), <<>>)
               ELSE IF p.ev = "none" THEN RR(Put(c1.ep, f.sid, p.st), OK, <<>>)
               ELSE IF Overflows(p.st.ow, f.inc)
                    THEN LET q == Process(p.st, "SEND_RST_STREAM") IN
                         RR(Emit(Put(c1.ep, f.sid, q.st), <<FRst(f.sid, 3)>>), OK, <<EvReset(f.sid, 3, FALSE)>>)
                    ELSE RR(Put(c1.ep, f.sid, [p.st EXCEPT !.ow = @ + f.inc]), OK, <<EvWU(f.sid, f.inc)>>)

RecvPing(ep, f) ==
  LET c1 == ConnStep(ep, "RECV_PING") IN
  IF ~c1.ok THEN RR(c1.ep, PE, <<>>)
  ELSE IF f.ack THEN RR(c1.ep, OK, <<[t |-> "Pong", tag |-> f.tag]>>)
  ELSE RR(Emit(c1.ep, <<FPing(TRUE, f.tag)>>), OK, <<[t |-> "Ping", tag |-> f.tag]>>)

RecvRst(ep, f) ==
  LET c1 == ConnStep(ep, "RECV_RST_STREAM") IN
  IF ~c1.ok THEN RR(c1.ep, PE, <<>>)
  ELSE IF ~Has(ep, f.sid) THEN RR(c1.ep, OK, <<>>)
  ELSE LET p == Process(ep.streams[f.sid], "RECV_RST_STREAM") IN
       IF p.oc # "ok" THEN RR(Put(c1.ep, f.sid, p.st), ExcOf(p.oc), <<>>)
       ELSE RR(Put(c1.ep, f.sid, p.st), OK, IF p.ev = "Reset" THEN <<EvReset(f.sid, f.code, TRUE)>> ELSE <<>>)

RecvPriority(ep, f) == RecvPriorityPart(ep, f.sid, <<f.w, f.dep, f.excl>>)

RecvGoAway(ep, f) ==
  LET c1 == ConnStep(ep, "RECV_GOAWAY") IN
  RR([c1.ep EXCEPT !.out = <<>>], OK, <<[t |-> "Term", code |-> f.code, last |-> f.last, tag |-> IF f.tag = "-" THEN "None" ELSE f.tag]>>)

RecvContinuation(ep, f) ==
  LET lk == Lookup(ep, f.sid) IN
  IF lk.c # "ok" THEN RR(ep, lk, <<>>)
  ELSE LET p == Process(ep.streams[f.sid], "RECV_CONTINUATION") IN RR(Put(ep, f.sid, p.st), ExcOf(p.oc), <<>>)

RecvAltSvc(ep, f) ==
  LET c1 == ConnStep(ep, "RECV_ALTERNATIVE_SERVICE") IN
  IF ~c1.ok THEN RR(c1.ep, PE, <<>>)
  ELSE IF f.sid # 0
  THEN IF ~Has(ep, f.sid) \/ f.org # "" THEN RR(c1.ep, OK, <<>>)
       ELSE LET p == Process(ep.streams[f.sid], "RECV_ALTERNATIVE_SERVICE") IN
            IF p.oc # "ok" THEN RR(Put(c1.ep, f.sid, p.st), ExcOf(p.oc), <<>>)
            ELSE RR(Put(c1.ep, f.sid, p.st), OK,
                    IF p.ev = "Alt" THEN <<[t |-> "Alt", org |-> ep.streams[f.sid].auth, fld |-> f.fld]>> ELSE <<>>)
  ELSE IF f.org = "" \/ ep.role = "s" THEN RR(c1.ep, OK, <<>>)
  ELSE RR(c1.ep, OK, <<[t |-> "Alt", org |-> f.org, fld |-> f.fld]>>)

RecvPushPromise(ep, f) ==
  \* (refused before its block is decoded: the decoder never sees what the peer's encoder wrote)
  IF SCur(ep.ls, 2) = 0 THEN RR([ep EXCEPT !.dl = TRUE], PE, <<>>)
  ELSE LET d == DecodeHP(ep, f) IN
  IF d.x.c # "ok" THEN RR([(IF d.x.c = "ProtocolError" THEN Mark(ep, "hpack_error_code") ELSE ep) EXCEPT !.dl = TRUE, !.decSize = d.size], d.x, <<>>)
  ELSE LET c1 == ConnStep([ep EXCEPT !.decSize = d.size], "RECV_PUSH_PROMISE") IN
  IF ~c1.ok THEN RR(c1.ep, PE, <<>>)
  ELSE LET e1 == c1.ep
           refuse(e) == RR(Mark(Emit(e, <<FRst(f.pid, 7)>>), "refused_push_forgotten"), OK, <<>>)
       IN IF ~Has(e1, f.sid)
          THEN IF ClosedBy(e1, f.sid) = "SRST" THEN refuse(e1) ELSE RR(e1, PE, <<>>)
          ELSE IF f.sid % 2 = 0 THEN RR(e1, PE, <<>>)
          ELSE LET p == Process(e1.streams[f.sid], "RECV_PUSH_PROMISE")
                   e2 == Put(e1, f.sid, p.st)
               IN IF p.oc = "SCE" THEN refuse(e2)
                  ELSE IF p.oc = "PE" THEN RR(e2, PE, <<>>)
                  ELSE LET pipe == InPipeline(f.h, "push", ep.cfg.ni, ep.cfg.vi, ep.cfg.enc) IN
                       IF pipe.c # "ok" THEN RR(e2, Exc(pipe.c, IF pipe.c = "ProtocolError" THEN 1 ELSE -1), <<>>)
                       ELSE LET b == Begin(e2, f.pid, 0) IN
                            IF ~b.ok THEN RR(e2, [b.x EXCEPT !.c = IF @ = "StreamIDTooLowError" THEN "TooLow" ELSE @] @@ [sid |-> f.pid], <<>>)
                            ELSE LET q == Process(b.ep.streams[f.pid], "RECV_PUSH_PROMISE")
                                     s2 == [q.st EXCEPT !.auth = AuthorityOf(f.h)]
                                 IN RR(Put(b.ep, f.pid, s2), OK, <<EvPush(f.pid, f.sid, pipe.h)>>)

\* frame-level rules the frame parser enforces before any state is looked at (RFC 7540 section 6):
\* stream-bound frames on stream 0 and connection frames on a stream are PROTOCOL_ERRORs
BadStreamZero(f) ==
  \/ f.t \in {"HEADERS", "DATA", "RST", "PRIO", "PP", "CONT"} /\ f.sid = 0
  \/ f.t = "PP" /\ (f.pid = 0 \/ f.pid % 2 = 1)
Dispatch(ep0, f0) ==
  \* a header block without tsu was built by the harness peer's encoder (single-endpoint mode): its pending table-size
  \* updates went into this block, whatever happens to the frame afterwards
  LET harness == f0.t \in {"HEADERS", "PP"} /\ "tsu" \notin DOMAIN f0
      f == IF harness THEN f0 @@ [tsu |-> IF f0.blk = "bad" THEN <<>> ELSE EncTsu(ep0.penc)] ELSE f0
      \* a SETTINGS ACK: the peer that sent it has, by sending it, started to use the HEADER_TABLE_SIZE of the frame it
      \* acknowledges (whatever this endpoint makes of the ACK)
      ep == IF harness /\ f0.blk # "bad" THEN [ep0 EXCEPT !.penc = EncAfter(@)]
            ELSE IF f0.t = "SET" /\ f0.ack
            THEN [ep0 EXCEPT !.lsH = IF @ = <<>> THEN @ ELSE Tail(@),
                             !.penc = IF ep0.lsH = <<>> \/ ep0.lsH[1] = <<>> THEN @ ELSE EncSet(@, ep0.lsH[1][1])]
            ELSE ep0
  IN
  IF BadStreamZero(f) THEN RR(ep, PE, <<>>) ELSE
  CASE f.t = "HEADERS" -> RecvHeaders(ep, f)
    [] f.t = "DATA"    -> RecvData(ep, f)
    [] f.t = "SET"     -> RecvSettings(ep, f)
    [] f.t = "WU"      -> RecvWindowUpdate(ep, f)
    [] f.t = "PING"    -> RecvPing(ep, f)
    [] f.t = "RST"     -> RecvRst(ep, f)
    [] f.t = "PRIO"    -> RecvPriority(ep, f)
    [] f.t = "GOAWAY"  -> RecvGoAway(ep, f)
    [] f.t = "CONT"    -> RecvContinuation(ep, f)
    [] f.t = "ALT"     -> RecvAltSvc(ep, f)
    [] f.t = "PP"      -> RecvPushPromise(ep, f)
    [] f.t = "UNKNOWN" -> RR(ep, OK, <<[t |-> "Unk"]>>)

\* _receive_frame: StreamClosedError / StreamIDTooLowError become stream errors when the stream was reset
ErrSid(f, x) == IF "sid" \in DOMAIN x THEN x.sid ELSE f.sid
RecvFrame(ep, f) ==
  LET r == Dispatch(ep, f) IN
  IF r.x.c = "StreamClosedError"
  THEN IF ByReset(r.ep, f.sid)
       THEN RR(Emit(IF r.ep.conn = "CLOSED" THEN Mark(r.ep, "rst_on_closed_connection") ELSE r.ep, <<FRst(f.sid, 5)>>), OK, r.ev)
       ELSE RR(r.ep, SCE, <<>>)
  ELSE IF r.x.c = "TooLow"
  THEN LET sid == ErrSid(f, r.x) IN
       IF ByReset(r.ep, sid) THEN RR(Emit(r.ep, <<FRst(sid, 5)>>), OK, <<>>)
       ELSE IF ByEnd(r.ep, sid) THEN RR(r.ep, SCE, <<>>)
       ELSE RR(r.ep, Exc("StreamIDTooLowError", 1), <<>>)
  ELSE r

\* receive_data: frames are handled in order; the first exception discards all events of the call;
\* a ProtocolError (any subclass) terminates the connection with one GOAWAY
Terminate(ep, code) ==
  LET g == FGoAway(ep.hiIn, code, "-")
      c1 == ConnStep(ep, "SEND_GOAWAY")
  IN Emit(c1.ep, <<g>>)
\* relative event links are positions in the list returned by the whole call
Shift(ev, k) == IF "se" \in DOMAIN ev /\ "pu" \in DOMAIN ev
                THEN [ev EXCEPT !.se = IF @ > 0 THEN @ + k ELSE @, !.pu = IF @ > 0 THEN @ + k ELSE @]
                ELSE IF "se" \in DOMAIN ev THEN [ev EXCEPT !.se = IF @ > 0 THEN @ + k ELSE @] ELSE ev
\* ---------------------------------------------------------------- the frame layer (hyperframe + h2.frame_buffer)
\* A RAW frame is a frame as the bytes give it, before any rule has been applied:
\*   typ, fl    type and flags octets            sid   stream id (31 bits)          len   payload length
\*   pad        value of the first payload octet if the PADDED flag is set and len > 0, else -1
\*   and what the payload holds as far as its length allows (the harness lays the payload out canonically and cuts it to len):
\*   DATA tag; HEADERS pr (priority fields if flagged and present), bl = number of block octets, each the HPACK code for
\*   ":method: GET" (gt is that field); PUSH_PROMISE pid, bl; CONTINUATION bl; PRIORITY w/dep/excl; RST code; SETTINGS s;
\*   PING tag; GOAWAY last/code/tag; WINDOW_UPDATE inc; ALTSVC org/fld/olen.
\* RawParse follows Frame.parse_frame_header, FrameBuffer._validate_frame_length and <Type>Frame.parse_body:
\* k = "err" (x the exception; the frame is NOT removed from the input buffer) or k = "ok" (f the parsed frame).
FDM == Exc("FrameDataMissingError", 6)
FTL == Exc("FrameTooLargeError", 6)
Bit(f, b) == (f.fl \div b) % 2 = 1
RawErr(x) == [k |-> "err", x |-> x, dev |-> ""]
RawOk(f) == [k |-> "ok", f |-> f]
RawParse(f, lim) ==
  LET padded == Bit(f, 8) IN
  IF (f.typ \in {0, 1, 2, 3, 5, 9} /\ f.sid = 0) \/ (f.typ \in {4, 6, 7} /\ f.sid # 0) THEN RawErr(PE)
  ELSE IF f.len > lim THEN RawErr(FTL)
  ELSE CASE f.typ = 0 ->
              IF padded /\ f.len = 0 THEN RawErr(FDM)
              ELSE IF padded /\ f.pad # 0 /\ f.pad >= f.len THEN RawErr(PE)
              ELSE RawOk(FData(f.sid, Bit(f, 1), IF padded THEN f.len - 1 - f.pad ELSE f.len, f.tag, IF padded THEN f.pad ELSE -1))
         [] f.typ = 1 ->
              LET l1 == IF padded THEN f.len - 1 ELSE f.len
                  prio == Bit(f, 32)
              IN IF padded /\ f.len = 0 THEN RawErr(FDM)
                 ELSE IF prio /\ l1 < 5 THEN RawErr(FDM)
                 ELSE IF padded /\ f.pad # 0 /\ f.pad >= l1 THEN RawErr(PE)
                 ELSE RawOk([t |-> "FRAG", first |-> TRUE, kind |-> "HEADERS", sid |-> f.sid, es |-> Bit(f, 1), eh |-> Bit(f, 4),
                             pr |-> IF prio THEN f.pr ELSE <<>>, pid |-> 0,
                             nb |-> Max0(l1 - (IF padded THEN f.pad ELSE 0) - (IF prio THEN 5 ELSE 0))])
         [] f.typ = 5 ->
              LET pd == IF padded THEN 1 ELSE 0 IN
              IF padded /\ f.len = 0 THEN RawErr(FDM)
              ELSE IF f.len - pd < 4 THEN RawErr(FDM)
              ELSE IF f.pid = 0 \/ f.pid % 2 = 1 THEN RawErr(PE)
              ELSE IF padded /\ f.pad # 0 /\ f.pad >= f.len THEN RawErr(PE)
              ELSE RawOk([t |-> "FRAG", first |-> TRUE, kind |-> "PP", sid |-> f.sid, es |-> FALSE, eh |-> Bit(f, 4), pr |-> <<>>,
                          pid |-> f.pid, nb |-> Max0(f.len - pd - 4 - (IF padded THEN f.pad ELSE 0))])
         [] f.typ = 9 -> RawOk([t |-> "FRAG", first |-> FALSE, kind |-> "CONT", sid |-> f.sid, es |-> FALSE, eh |-> Bit(f, 4),
                                pr |-> <<>>, pid |-> 0, nb |-> f.len])
         [] f.typ = 2 -> IF f.len # 5 THEN RawErr(FDM) ELSE RawOk(FPrio(f.sid, f.w, f.dep, f.excl))
         [] f.typ = 3 -> IF f.len # 4 THEN RawErr(FDM) ELSE RawOk(FRst(f.sid, f.code))
         \* (a SETTINGS ACK with a payload is a frame-size violation by RFC 7540 6.5; the parser calls it invalid data)
         [] f.typ = 4 -> IF Bit(f, 1) /\ f.len > 0 THEN [RawErr(PE) EXCEPT !.dev = "settings_ack_length_code"]
                         ELSE IF f.len % 6 # 0 THEN RawErr(FDM)
                         ELSE RawOk(IF Bit(f, 1) THEN FSettingsAck ELSE FSettings(f.s))
         [] f.typ = 6 -> IF f.len # 8 THEN RawErr(FDM) ELSE RawOk(FPing(Bit(f, 1), f.tag))
         [] f.typ = 7 -> IF f.len < 8 THEN RawErr(FDM) ELSE RawOk(FGoAway(f.last, f.code, f.tag))
         [] f.typ = 8 -> IF f.len # 4 THEN RawErr(FDM) ELSE IF f.inc <= 0 THEN RawErr(PE) ELSE RawOk(FWU(f.sid, f.inc))
         [] f.typ = 10 -> IF f.len < 2 \/ 2 + f.olen > f.len THEN RawErr(FDM) ELSE RawOk(FAlt(f.sid, f.org, f.fld))
         [] OTHER -> RawOk([t |-> "UNKNOWN", sid |-> f.sid])

\* FrameBuffer._update_header_buffer on a parsed frame: k = "err" (consumed), "hold" (buffered), "frame" (f to dispatch)
BlockOf(gt, n) == [i \in 1..n |-> gt]
Jumbo(first, nb, gt) ==
  IF first.kind = "HEADERS"
  THEN [t |-> "HEADERS", sid |-> first.sid, es |-> first.es, h |-> BlockOf(gt, nb), pr |-> first.pr, blk |-> "ok", tsu |-> <<>>]
  ELSE [t |-> "PP", sid |-> first.sid, pid |-> first.pid, h |-> BlockOf(gt, nb), blk |-> "ok", tsu |-> <<>>]
HeaderBuffer(ep, g, gt) ==
  IF ep.hb # <<>>
  THEN LET b == ep.hb[1] IN
       IF ~(g.t = "FRAG" /\ g.kind = "CONT" /\ g.sid = b.first.sid) THEN [k |-> "err", ep |-> ep]
       ELSE LET b2 == [b EXCEPT !.n = @ + 1, !.nb = @ + g.nb] IN
            IF b2.n > 64 THEN [k |-> "err", ep |-> [ep EXCEPT !.hb = <<b2>>]]
            ELSE IF g.eh THEN [k |-> "frame", ep |-> [ep EXCEPT !.hb = <<>>], f |-> Jumbo(b2.first, b2.nb, gt)]
            ELSE [k |-> "hold", ep |-> [ep EXCEPT !.hb = <<b2>>]]
  ELSE IF g.t = "FRAG" /\ g.first
  THEN IF g.eh THEN [k |-> "frame", ep |-> ep, f |-> Jumbo(g, g.nb, gt)]
       ELSE [k |-> "hold", ep |-> [ep EXCEPT !.hb = <<[first |-> g, n |-> 1, nb |-> g.nb]>>]]
  ELSE IF g.t = "FRAG" THEN [k |-> "frame", ep |-> ep, f |-> [t |-> "CONT", sid |-> g.sid]]        \* a naked CONTINUATION
  ELSE [k |-> "frame", ep |-> ep, f |-> g]

\* FrameBuffer: a frame longer than the limit is a FRAME_SIZE_ERROR.  Only DATA frames can be that long here (every
\* other frame of the scenarios is short; long header blocks travel in CONTINUATION frames).  The limit is copied
\* from max_inbound_frame_size once per receive_data() call: a MAX_FRAME_SIZE change acknowledged by an earlier frame
\* of the same call does not count yet (deviation frame_size_limit_snapshot where that changes the verdict).
\* (a header block whose frame sizes are known: its first frame; a later fragment over the limit leaves the parser in the
\* middle of the block, which is not modelled: flag sat)
FrameLen(f) == IF f.t = "DATA" THEN f.n + (IF f.pad >= 0 THEN f.pad + 1 ELSE 0)
               ELSE IF "sizes" \in DOMAIN f THEN f.sizes[1] ELSE 0
LaterFragmentTooLong(f, lim) == "sizes" \in DOMAIN f /\ \E i \in 2..Len(f.sizes) : f.sizes[i] > lim
RECURSIVE ReceiveLoop(_, _, _, _)
ReceiveLoop(ep, fs, evs, lim) ==
  IF fs = <<>> THEN [ep |-> [ep EXCEPT !.pend = <<>>], r |-> OK, ev |-> evs]
  ELSE IF FrameLen(fs[1]) > lim
  THEN \* refused by the frame parser: the frame is not even removed from the buffer
       LET e1 == IF FrameLen(fs[1]) > ep.mif THEN ep ELSE Mark(ep, "frame_size_limit_snapshot")
       IN [ep |-> [Terminate(e1, 6) EXCEPT !.pend = fs], r |-> Exc("FrameTooLargeError", 6), ev |-> <<>>]
  ELSE IF fs[1].t = "RAW"
  THEN LET p == RawParse(fs[1], lim) IN
       IF p.k = "err" THEN [ep |-> [Terminate(IF p.dev # "" THEN Mark(ep, p.dev) ELSE ep, p.x.e) EXCEPT !.pend = fs], r |-> p.x, ev |-> <<>>]
       ELSE LET hbr == HeaderBuffer(ep, p.f, fs[1].gt) IN
            IF hbr.k = "err" THEN [ep |-> [Terminate(hbr.ep, 1) EXCEPT !.pend = Tail(fs)], r |-> PE, ev |-> <<>>]
            ELSE IF hbr.k = "hold" THEN ReceiveLoop(hbr.ep, Tail(fs), evs, lim)
            ELSE ReceiveLoop(hbr.ep, <<hbr.f>> \o Tail(fs), evs, lim)
  ELSE IF ep.hb # <<>> /\ fs[1].t # "PREFACE"
  THEN \* any other frame while a header block is being collected: refused by the frame buffer after it was removed
       \* (unless the frame parser refuses it first, which happens before it is removed)
       [ep |-> [Terminate(ep, 1) EXCEPT !.pend = IF BadStreamZero(fs[1]) THEN fs ELSE Tail(fs)], r |-> PE, ev |-> <<>>]
  ELSE IF fs[1].t = "PREFACE"
  THEN \* the 24 octets of a client preface read as a frame header announce a frame of 0x505249 octets; the length is only
       \* checked once a whole frame is buffered, so the parser waits for the rest and nothing behind it is ever looked at
       [ep |-> [ep EXCEPT !.pend = fs], r |-> OK, ev |-> evs]
  ELSE IF LaterFragmentTooLong(fs[1], lim) THEN [ep |-> [ep EXCEPT !.sat = TRUE], r |-> OK, ev |-> evs]
  ELSE LET e0 == IF FrameLen(fs[1]) > ep.mif THEN Mark(ep, "frame_size_limit_snapshot") ELSE ep
           r == RecvFrame(e0, fs[1]) IN
       IF r.x.c = "ok" THEN ReceiveLoop(r.ep, Tail(fs), evs \o [i \in 1..Len(r.ev) |-> Shift(r.ev[i], Len(evs))], lim)
       ELSE IF IsForeign(r.x) THEN [ep |-> Mark(r.ep, IF r.x.c = "foreign:IndexError" THEN "foreign_index_error_empty_name"
                                                      ELSE "foreign_unicode_error_header_encoding"), r |-> r.x, ev |-> <<>>]
       \* the frames behind the failing one stay in the input buffer; a frame the frame parser refuses is not even
       \* removed from it (every later call fails on it again)
       ELSE [ep |-> [Terminate(r.ep, r.x.e) EXCEPT !.pend = IF BadStreamZero(fs[1]) THEN fs ELSE Tail(fs)],
             r |-> [c |-> r.x.c, e |-> r.x.e], ev |-> <<>>]
\* The client preface travels glued to the frame behind it (field pre).  A server's input must start with it: anything else
\* is refused before it is even buffered (ProtocolError, no GOAWAY: the connection is not terminated by this).  A preface
\* anywhere else is read as a frame header.
HasPre(f) == "pre" \in DOMAIN f /\ f.pre
RECURSIVE Unglue(_)
Unglue(fs) == IF fs = <<>> THEN <<>>
              ELSE IF HasPre(fs[1]) THEN <<FPreface, [fs[1] EXCEPT !.pre = FALSE]>> \o Unglue(Tail(fs))
              ELSE <<fs[1]>> \o Unglue(Tail(fs))
\* ---------------------------------------------------------------- the HTTP message grammar of reported events (ghost, C07)
\* phase of a stream as the application has been told: "N" nothing yet, "I" informational response(s), "H" final headers,
\* "D" body, "T" trailers, "E" ended, "R" reset.  EgNext gives the phase after an event, or "BAD" if the event may not come now.
EgPhase(eg, sid) == IF sid \in DOMAIN eg THEN eg[sid] ELSE "N"
EgNext(ph, t) ==
  CASE t \in {"Req", "Resp"} -> IF (t = "Req" /\ ph = "N") \/ (t = "Resp" /\ ph \in {"N", "I"}) THEN "H" ELSE "BAD"
    [] t = "Info"  -> IF ph \in {"N", "I"} THEN "I" ELSE "BAD"
    [] t = "Data"  -> IF ph \in {"H", "D"} THEN "D" ELSE "BAD"
    [] t = "Trl"   -> IF ph \in {"H", "D"} THEN "T" ELSE "BAD"
    [] t = "End"   -> IF ph \in {"H", "D", "T"} THEN "E" ELSE "BAD"
    [] t = "Reset" -> IF ph # "R" THEN "R" ELSE "BAD"
    [] t = "Prio"  -> ph
    [] t = "WU"    -> IF ph = "R" THEN "BAD" ELSE ph
    [] OTHER       -> ph
RECURSIVE EgApply(_, _)
EgApply(eg, evs) ==
  IF evs = <<>> THEN eg
  ELSE LET e == evs[1] IN
       IF "sid" \in DOMAIN e /\ e.t # "Push" /\ ~(e.t = "WU" /\ e.sid = 0)
       THEN LET nx == EgNext(EgPhase(eg, e.sid), e.t) IN EgApply((e.sid :> (IF nx = "BAD" THEN EgPhase(eg, e.sid) ELSE nx)) @@ eg, Tail(evs))
       ELSE EgApply(eg, Tail(evs))
\* do the events of one receive_data() call follow the grammar, given the phases before it?
RECURSIVE EgOK(_, _, _, _)
EgOK(eg, evs, i, role) ==
  IF i > Len(evs) THEN TRUE
  ELSE LET e == evs[i] IN
       IF "sid" \in DOMAIN e /\ e.t # "Push" /\ ~(e.t = "WU" /\ e.sid = 0)
       THEN LET ph == EgPhase(eg, e.sid)
                nx == EgNext(ph, e.t)
                \* related events: later in the same list, of the right kind, for the same stream; trailers always end the stream
                seOK == ("se" \notin DOMAIN e) \/ e.se = -1 \/ (e.se > i /\ e.se <= Len(evs) /\ evs[e.se].t = "End" /\ evs[e.se].sid = e.sid)
                puOK == ("pu" \notin DOMAIN e) \/ e.pu = -1 \/ (e.pu > i /\ e.pu <= Len(evs) /\ evs[e.pu].t = "Prio" /\ evs[e.pu].sid = e.sid)
                trlOK == e.t # "Trl" \/ e.se > i
                roleOK == IF role = "s" THEN e.t \notin {"Resp", "Info"} ELSE e.t # "Req"
            IN nx # "BAD" /\ seOK /\ puOK /\ trlOK /\ roleOK /\ EgOK((e.sid :> nx) @@ eg, evs, i + 1, role)
       ELSE (e.t = "Push" => role = "c") /\ EgOK(eg, evs, i + 1, role)

Receive0(ep, fs) ==
  IF ep.needPre /\ fs # <<>>
  THEN IF HasPre(fs[1]) THEN ReceiveLoop([ep EXCEPT !.needPre = FALSE], <<[fs[1] EXCEPT !.pre = FALSE]>> \o Unglue(Tail(fs)), <<>>, ep.mif)
       \* (the refused input is dropped: a header block in it never reaches the HPACK decoder)
       ELSE [ep |-> [ep EXCEPT !.dl = @ \/ \E i \in 1..Len(fs) : fs[i].t \in {"HEADERS", "PP"}], r |-> PE, ev |-> <<>>]
  ELSE ReceiveLoop(ep, ep.pend \o Unglue(fs), <<>>, ep.mif)
Receive(ep, fs) == LET r == Receive0(ep, fs) IN [r EXCEPT !.ep.eg = EgApply(ep.eg, r.ev)]


\* get_next_available_stream_id (-1: none left)
NextStreamId(ep) == LET n == IF ep.hiOut = 0 THEN (IF ep.role = "c" THEN 1 ELSE 2) ELSE
                                IF ep.hiOut < 0 \/ ep.hiOut > MAXW - 2 THEN -1 ELSE ep.hiOut + 2 IN n

\* ---------------------------------------------------------------- h2c upgrade (initiate_upgrade_connection)
\* c.src: "none" no HTTP2-Settings value, "lit" the value is the SETTINGS payload c.s (pairs).  A client returns the payload
\* to put into its HTTP2-Settings header: its local settings in force, in dictionary order (result field v).
\* The connection preamble is emitted first; then (server) the client's settings are applied as if received in a SETTINGS
\* frame whose ACK is thrown away; then stream 1 is created half-closed: (local) on a client, (remote) on a server.
Upgrade(ep, c) ==
  LET i == Initiate(ep) IN
  IF i.r.c # "ok" THEN CR(i.ep, i.r)
  ELSE LET e1 == i.ep
           ids == SelectSeq(ep.ls.ord, LAMBDA id : id \notin ep.ls.hn)
           ret == IF ep.role = "c" THEN [k \in 1..Len(ids) |-> <<ids[k] % 256, SCur(ep.ls, ids[k])>>] ELSE <<>>
           \* a raise after this point leaves the preamble in the output buffer (deviation upgrade_raises_after_preamble)
           fail(e, x) == CR(Mark(e, "upgrade_raises_after_preamble"), x)
           applied == IF ep.role = "s" /\ c.src = "lit" /\ c.s # <<>>
                      THEN LET r == RecvSettings(e1, FSettings(c.s)) IN [ep |-> [r.ep EXCEPT !.out = e1.out], x |-> r.x]
                      ELSE [ep |-> e1, x |-> OK]
       IN IF applied.x.c # "ok" THEN fail(applied.ep, applied.x)
          ELSE LET c1 == ConnStep(applied.ep, IF ep.role = "c" THEN "SEND_HEADERS" ELSE "RECV_HEADERS") IN
          IF ~c1.ok THEN fail(c1.ep, PE)
          ELSE LET b == Begin(c1.ep, 1, 1) IN
          IF ~b.ok THEN fail(c1.ep, b.x)
          ELSE LET p == Process(b.ep.streams[1], IF ep.role = "c" THEN "UPGRADE_CLIENT" ELSE "UPGRADE_SERVER") IN
               CR([Put(b.ep, 1, p.st) EXCEPT !.upgRet = ret], [c |-> "ok", e |-> -1, v |-> ret])

Call0(ep, c) ==
  CASE c.op = "init"  -> Initiate(ep)
    [] c.op = "hdr"   -> SendHeaders(ep, c)
    [] c.op = "data"  -> SendData(ep, c)
    [] c.op = "end"   -> EndStream(ep, c)
    [] c.op = "inc"   -> IncrementWindow(ep, c)
    [] c.op = "push"  -> PushStream(ep, c)
    [] c.op = "ping"  -> Ping(ep, c)
    [] c.op = "rst"   -> ResetStream(ep, c)
    [] c.op = "close" -> CloseConnection(ep, c)
    [] c.op = "set"   -> UpdateSettings(ep, c)
    [] c.op = "alt"   -> AdvertiseAltSvc(ep, c)
    [] c.op = "prio"  -> Prioritize(ep, c)
    [] c.op = "ack"   -> AckData(ep, c)
    [] c.op = "oin"   -> OpenCount(ep, 1 - MyParity(ep))
    [] c.op = "oout"  -> OpenCount(ep, MyParity(ep))
    [] c.op = "upg"   -> Upgrade(ep, c)
    [] c.op = "next"  -> LET n == NextStreamId(ep) IN
                         CR(ep, IF n = -1 THEN [c |-> "NoAvailableStreamIDError", e |-> 1, v |-> -1] ELSE [c |-> "ok", e |-> -1, v |-> n])
\* nothing stops a call from writing frames before the connection preamble has been written (the connection state machine
\* starts in a state in which every send is allowed)
Call(ep, c) ==
  LET r == Call0(ep, c) IN
  IF ~ep.inited /\ c.op \notin {"init", "upg"} /\ Len(r.ep.out) > Len(ep.out)
  THEN [r EXCEPT !.ep = Mark(@, "sends_before_preamble")] ELSE r


\* ---------------------------------------------------------------- queries (pure)
LocalWindow(ep, sid) == LET lk == Lookup(ep, sid) IN IF lk.c = "ok" THEN Min(ep.ow, ep.streams[sid].ow) ELSE lk.c
RemoteWindow(ep, sid) == LET lk == Lookup(ep, sid) IN IF lk.c = "ok" THEN Min(ep.iw.cur, ep.streams[sid].iw.cur) ELSE lk.c
Queries(ep, qsids) ==
  [lw |-> [i \in 1..Len(qsids) |-> LocalWindow(ep, qsids[i])],
   rw |-> [i \in 1..Len(qsids) |-> RemoteWindow(ep, qsids[i])],
   nx |-> NextStreamId(ep), mof |-> ep.mof, mif |-> ep.mif]

\* ---------------------------------------------------------------- projection of the whole abstract state
\* Compared after every step with the same projection read (read-only) from the real objects, so that a step that
\* leaves the code in a different state than the model is noticed at that step, not only when a later step shows it.
\* frames in the input buffer, a header block (HEADERS / PUSH_PROMISE without END_HEADERS + its CONTINUATIONs) counted once
RECURSIVE PendCount(_, _)
PendCount(fs, open) ==
  IF fs = <<>> THEN 0
  ELSE LET f == fs[1]
           raw == f.t = "RAW"
       IN IF open /\ raw /\ f.typ = 9 THEN PendCount(Tail(fs), ~Bit(f, 4))
          ELSE 1 + PendCount(Tail(fs), raw /\ f.typ \in {1, 5} /\ ~Bit(f, 4))
\* (the four progress flags of the code are None until they are set to True: "N" / "T"; any other value is a difference)
Flag3(b) == IF b THEN "T" ELSE "N"
\* (mof: every stream object carries a copy of the connection's outbound frame-size limit, used when its header blocks are cut)
ZStream(sid, s, mof) == [sid |-> sid, mof |-> mof, st |-> s.st, cl |-> s.cl, hs |-> Flag3(s.hs), ts |-> Flag3(s.ts), hr |-> Flag3(s.hr), tr |-> Flag3(s.tr), by |-> s.by,
                    ow |-> s.ow, iw |-> <<s.iw.cur, s.iw.max, s.iw.bp>>,
                    ecl |-> IF s.eclSet THEN <<s.ecl>> ELSE <<>>, acl |-> s.acl, meth |-> s.meth, auth |-> s.auth]
ZSettings(S) == [i \in 1..Len(S.ord) |-> <<S.ord[i], IF S.ord[i] \in S.hn THEN Tail(S.q[S.ord[i]]) ELSE S.q[S.ord[i]], S.ord[i] \in S.hn>>]
Z(ep) == [conn |-> ep.conn, hiIn |-> ep.hiIn, hiOut |-> ep.hiOut, ow |-> ep.ow, iw |-> <<ep.iw.cur, ep.iw.max, ep.iw.bp>>,
          streams |-> [i \in 1..Len(ep.sord) |-> ZStream(ep.sord[i], ep.streams[ep.sord[i]], ep.mof)],
          closed |-> [i \in 1..Len(ep.closed) |-> <<ep.closed[i].sid, ep.closed[i].by>>],
          ls |-> ZSettings(ep.ls), rs |-> ZSettings(ep.rs), hdrCap |-> ep.hdrCap,
          hb |-> IF ep.hb = <<>> THEN 0 ELSE ep.hb[1].n,
          hp |-> <<ep.enc.size, ep.enc.rz, ep.enc.ch, ep.decSize, ep.decMax>>,
          pend |-> PendCount(ep.pend, FALSE)]
=============================================================================
