------------------------------ MODULE Windows ------------------------------
(***************************************************************************)
(* The inbound window manager (h2.windows.WindowManager) as pure operators *)
(* over a record [max, cur, bp]: max_window_size, current_window_size,     *)
(* _bytes_processed.  Module H2 uses these operators for the connection    *)
(* window and for every stream window; module WindowsInd proves properties *)
(* of them for ALL window sizes with Apalache (inductive invariants), which *)
(* TLC's small instances cannot do.  The annotations are Apalache types.   *)
(***************************************************************************)
EXTENDS Integers

MAXW == 2147483647

\* @type: (Int, Int) => Int;
Min(a, b) == IF a <= b THEN a ELSE b

\* @typeAlias: wm = { max: Int, cur: Int, bp: Int };
\* @type: Int => $wm;
WM(max) == [max |-> max, cur |-> max, bp |-> 0]

\* cur + inc > 2^31-1 without forming the sum
\* @type: (Int, Int) => Bool;
Overflows(cur, inc) == cur > 0 /\ inc > MAXW - cur

\* window_consumed (the caller checks cur < 0 afterwards)
\* @type: ($wm, Int) => $wm;
WMConsume(w, n) == [w EXCEPT !.cur = @ - n]

\* window_opened (the caller checks Overflows first)
\* @type: ($wm, Int) => $wm;
WMOpen(w, n) ==
  LET c == w.cur + n IN [w EXCEPT !.cur = c, !.max = IF c > @ THEN c ELSE @]

\* the condition under which _maybe_update_window emits an update, given the acknowledged octets waiting to be credited
\* @type: ($wm, Int) => Bool;
Fires(w, bp) == (w.cur = 0 /\ bp > Min(1024, w.max \div 4)) \/ (bp >= w.max \div 2)

\* process_bytes + _maybe_update_window: the new manager and the increment to emit (0: none)
\* @type: ($wm, Int) => { w: $wm, inc: Int };
WMProcess(w, n) ==
  LET bp == w.bp + n
      maxInc == w.max - w.cur
      fire == Fires(w, bp)
      inc == IF bp = 0 THEN 0 ELSE IF fire THEN Min(bp, maxInc) ELSE 0
  IN [w |-> [w EXCEPT !.bp = IF bp # 0 /\ fire THEN 0 ELSE bp, !.cur = @ + inc], inc |-> inc]
=============================================================================
