------------------------------ MODULE Headers ------------------------------
(***************************************************************************)
(* Header-list rules of an HTTP/2 endpoint (RFC 7540 section 8.1.2,        *)
(* RFC 8441 :protocol) over abstract header fields ("tokens").             *)
(*                                                                         *)
(* A token is a record of features of one header field, extracted by the  *)
(* harness without judgement (harness/absn.py tok()):                      *)
(*   n, v    raw name / value as text        ty  "b" bytes / "s" str       *)
(*   k       "t" tuple, "H" HeaderTuple, "N" NeverIndexedHeaderTuple       *)
(*   nl      name lowercased + stripped      vs  value stripped            *)
(*   vslo    value stripped + lowercased     nu  name has A-Z              *)
(*   ne      name empty   nw / vw  name / value has surrounding whitespace *)
(*   np/nlp  raw / normalised name starts with ":"                         *)
(*   vsn     length of stripped value   v1  raw value starts with "1"      *)
(*   vlead / vtrail  first / last byte of the value is whitespace          *)
(*   ci, civ value parses as an integer (Python int(v, 10)), its value     *)
(*   u8      name and value are valid UTF-8                                *)
(* The operators below are the library's rules, in the order it applies    *)
(* them, because the order decides which failure is seen first.            *)
(***************************************************************************)
EXTENDS Integers, Sequences, FiniteSets

ConnSpecific == {"connection", "proxy-connection", "keep-alive", "transfer-encoding", "upgrade"}
KnownPseudo  == {":method", ":scheme", ":authority", ":path", ":status", ":protocol"}
RequestOnly  == {":scheme", ":path", ":authority", ":method", ":protocol"}
SecureNames  == {"authorization", "proxy-authorization"}

Idx(h) == 1..Len(h)

\* ---------------------------------------------------------------- a header field as it travels / is delivered
Wire(n, v, ni, ty) == [n |-> n, v |-> v, ni |-> ni, ty |-> ty]

\* ---------------------------------------------------------------- features used before any normalisation
\* utilities.is_informational_response: walks the leading pseudo-headers, first :status decides
IsInformational(h) ==
  \E i \in Idx(h) : /\ h[i].n = ":status" /\ h[i].v1
                    /\ \A j \in 1..(i-1) : h[j].np /\ h[j].n # ":status"
\* utilities.extract_method_header / authority_from_headers: first exact match on the raw name
FirstIdx(h, name) == CHOOSE i \in Idx(h) : h[i].n = name /\ \A j \in 1..(i-1) : h[j].n # name
HasRaw(h, name) == \E i \in Idx(h) : h[i].n = name
MethodOf(h)    == IF HasRaw(h, ":method") THEN h[FirstIdx(h, ":method")].v ELSE "None"
AuthorityOf(h) == IF HasRaw(h, ":authority") THEN h[FirstIdx(h, ":authority")].v ELSE "None"

\* stream._initialize_content_length: first raw "content-length" (bytes on the wire)
HasCL(h)  == HasRaw(h, "content-length")
CLTok(h)  == h[FirstIdx(h, "content-length")]

\* ---------------------------------------------------------------- outbound: normalise, then validate
\* view of a token as the validators see it: [n, v, ty, ni]
RawView(t)  == [n |-> t.n,  v |-> t.v,  vlo |-> t.vlo,  ty |-> t.ty, ni |-> t.k = "N", pseudo |-> t.np,  vempty |-> t.v = ""]
NormView(t) == [n |-> t.nl, v |-> t.vs, vlo |-> t.vslo, ty |-> t.ty,
                ni |-> (t.k = "N") \/ (t.nl \in SecureNames) \/ (t.nl = "cookie" /\ t.vsn < 20),
                pseudo |-> t.nlp, vempty |-> t.vs = ""]

NormalizeOut(h) ==      \* lower + strip, drop connection-specific fields, mark secure fields never-indexed
  LET views == [i \in Idx(h) |-> NormView(h[i])]
      Keep(x) == x.n \notin ConnSpecific
  IN SelectSeq(views, Keep)
OutViews(h, normalize) == IF normalize THEN NormalizeOut(h) ELSE [i \in Idx(h) |-> RawView(h[i])]

\* the rule set shared by outbound and inbound validation, on views; kind in {"req","resp","trl","push"}
SameField(a, b) == a.n = b.n /\ a.ty = b.ty          \* b':method' and ':method' are different keys
BadTE(x)   == x.n = "te" /\ x.vlo # "trailers"
BadConn(x) == x.n \in ConnSpecific
DupPseudo(w, i) == w[i].pseudo /\ \E j \in 1..(i-1) : w[j].pseudo /\ SameField(w[i], w[j])
OutOfSeq(w, i)  == w[i].pseudo /\ \E j \in 1..(i-1) : ~w[j].pseudo
Custom(x)       == x.pseudo /\ x.n \notin KnownPseudo
EmptyPath(x, kind) == kind \in {"req", "push"} /\ x.n = ":path" /\ x.vempty

PseudoNames(w) == {w[i].n : i \in {j \in Idx(w) : w[j].pseudo}}
ViewMethod(w) ==     \* last :method wins (the validator overwrites its variable)
  LET S == {i \in Idx(w) : w[i].pseudo /\ w[i].n = ":method"}
  IN IF S = {} THEN "None" ELSE w[CHOOSE i \in S : \A j \in S : j <= i].v
AcceptablePseudo(w, kind) ==
  LET P == PseudoNames(w) IN
  CASE kind = "trl"  -> P = {}
    [] kind = "resp" -> ":status" \in P /\ P \cap RequestOnly = {}
    [] OTHER         -> /\ {":path", ":method", ":scheme"} \subseteq P
                        /\ ":status" \notin P
                        /\ (ViewMethod(w) # "CONNECT" => ":protocol" \notin P)
LastVal(w, name) ==
  LET S == {i \in Idx(w) : w[i].n = name} IN
  IF S = {} THEN <<>> ELSE LET x == w[CHOOSE i \in S : \A j \in S : j <= i] IN <<[v |-> x.v, ty |-> x.ty]>>
HostAuthorityOK(w, kind) ==
  kind \in {"resp", "trl"} \/
  LET a == LastVal(w, ":authority")
      host == LastVal(w, "host")
  IN /\ (a # <<>> \/ host # <<>>)
     /\ (a # <<>> /\ host # <<>>) => a = host

\* validate_outbound_headers: te, connection, pseudo rules, host/authority, path
OutFieldBad(w, i, kind) == BadTE(w[i]) \/ BadConn(w[i]) \/ DupPseudo(w, i) \/ OutOfSeq(w, i) \/ Custom(w[i]) \/ EmptyPath(w[i], kind)
ValidOutViews(w, kind) ==
  /\ \A i \in Idx(w) : ~OutFieldBad(w, i, kind)
  /\ AcceptablePseudo(w, kind)
  /\ HostAuthorityOK(w, kind)

\* result of the outbound pipeline: [ok, h (wire fields), clean]
\* clean = no header was handed to the HPACK encoder before the failure (the generators are lazy)
OutPipeline(h, kind, normalize, validate) ==
  LET w == OutViews(h, normalize)
      ok == ~validate \/ ValidOutViews(w, kind)
      firstBad == IF \E i \in Idx(w) : OutFieldBad(w, i, kind)
                  THEN CHOOSE i \in Idx(w) : OutFieldBad(w, i, kind) /\ \A j \in 1..(i-1) : ~OutFieldBad(w, j, kind)
                  ELSE Len(w) + 1
  IN [ok |-> ok,
      h |-> [i \in Idx(w) |-> Wire(w[i].n, w[i].v, w[i].ni, "b")],
      clean |-> ok \/ firstBad = 1]

\* ---------------------------------------------------------------- inbound: normalise (cookie join), validate, decode
InView(t) == [n |-> t.n, v |-> t.v, vlo |-> t.vlo, ty |-> "b", ni |-> t.k = "N", pseudo |-> t.np, vempty |-> t.v = "",
              nu |-> t.nu, ne |-> t.ne, nw |-> t.nw, vlead |-> t.vlead, vtrail |-> t.vtrail, u8 |-> t.u8]
RECURSIVE JoinCookies(_)
JoinCookies(vals) == IF Len(vals) = 1 THEN vals[1] ELSE vals[1] \o "; " \o JoinCookies(Tail(vals))
IsCookie(x) == x.n = "cookie"
NotCookie(x) == x.n # "cookie"
\* utilities._combine_cookie_fields: all cookie fields leave their place; one joined never-indexed field is appended
CombineCookies(w) ==
  LET cs == SelectSeq(w, IsCookie)
      rest == SelectSeq(w, NotCookie)
  IN IF cs = <<>> THEN w
     ELSE LET joined == JoinCookies([i \in Idx(cs) |-> cs[i].v])
              a == cs[1]
              b == cs[Len(cs)]
          IN rest \o <<[n |-> "cookie", v |-> joined, vlo |-> joined, ty |-> "b", ni |-> TRUE, pseudo |-> FALSE,
                        vempty |-> joined = "", nu |-> FALSE, ne |-> FALSE, nw |-> FALSE,
                        vlead |-> (a.v # "" /\ a.vlead),                            \* "" + "; " starts with ";": not whitespace
                        vtrail |-> (IF b.v # "" THEN b.vtrail ELSE Len(cs) > 1),   \* "...; " ends with a space
                        u8 |-> \A i \in Idx(cs) : cs[i].u8]>>

\* outcome of the inbound pipeline
InOK(h)    == [c |-> "ok", h |-> h]
InErr(cls) == [c |-> cls, h |-> <<>>]

\* per-field failure of validate_headers + header_encoding, in the library's order; "none" if the field passes
InFieldFailure(w, i, kind, validate, decode) ==
  LET x == w[i] IN
  IF validate /\ x.nu THEN "ProtocolError"
  ELSE IF validate /\ x.ne THEN "foreign:IndexError"                \* header[0][0] on an empty name
  ELSE IF validate /\ (x.nw \/ x.vlead \/ x.vtrail) THEN "ProtocolError"
  ELSE IF validate /\ (BadTE(x) \/ BadConn(x) \/ DupPseudo(w, i) \/ OutOfSeq(w, i) \/ Custom(x) \/ EmptyPath(x, kind))
       THEN "ProtocolError"
  ELSE IF decode /\ ~x.u8 THEN "foreign:UnicodeDecodeError"
  ELSE "none"

InPipeline(h, kind, normalize, validate, decode) ==
  LET w0 == [i \in Idx(h) |-> InView(h[i])]
      w == IF normalize THEN CombineCookies(w0) ELSE w0
      F(i) == InFieldFailure(w, i, kind, validate, decode)
      bad == {i \in Idx(w) : F(i) # "none"}
  IN IF bad # {} THEN InErr(F(CHOOSE i \in bad : \A j \in bad : i <= j))
     ELSE IF validate /\ ~(AcceptablePseudo(w, kind) /\ HostAuthorityOK(w, kind)) THEN InErr("ProtocolError")
     ELSE InOK([i \in Idx(w) |-> Wire(w[i].n, w[i].v, w[i].ni, IF decode THEN "s" ELSE "b")])
=============================================================================
