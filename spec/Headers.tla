------------------------------ MODULE Headers ------------------------------
(***************************************************************************)
(* Header-list rules of an HTTP/2 endpoint (RFC 7540 section 8.1.2,        *)
(* RFC 8441 :protocol) over abstract header fields ("tokens").             *)
(*                                                                         *)
(* A token is a record of features of one header field, extracted by the  *)
(* harness without judgement (harness/absn.py tok()):                      *)
(*   n, v    name / value as text            ty  "b" bytes / "s" str       *)
(*   k       "t" tuple, "H" HeaderTuple, "N" NeverIndexedHeaderTuple       *)
(*   nl      name lowercased + stripped      vs  value stripped            *)
(*   vlo     value lowercased                vslo value stripped+lowercased*)
(*   nu      name has A-Z      ne  name empty                              *)
(*   nw      name has surrounding whitespace                               *)
(*   vlead / vtrail  first / last byte of the value is whitespace          *)
(*   np/nlp  name / normalised name starts with ":"                        *)
(*   vsn     length of stripped value                                      *)
(*   v1/vs1  value / stripped value starts with "1"                        *)
(*   ci, civ value parses as an integer (Python int(v, 10)), its value     *)
(*   u8      name and value are valid UTF-8                                *)
(*   sz/nsz  RFC 7541 size (name + value + 32) as given / after lower+strip*)
(* The operators below are the library's rules, in the order it applies    *)
(* them, because the order decides which failure is seen first.            *)
(***************************************************************************)
EXTENDS Integers, Sequences, FiniteSets

ConnSpecific == {"connection", "proxy-connection", "keep-alive", "transfer-encoding", "upgrade"}
KnownPseudo  == {":method", ":scheme", ":authority", ":path", ":status", ":protocol"}
RequestOnly  == {":scheme", ":path", ":authority", ":method", ":protocol"}
SecureNames  == {"authorization", "proxy-authorization"}

Idx(h) == 1..Len(h)

\* RFC 7541 section 4.1 size of a header list (what SETTINGS_MAX_HEADER_LIST_SIZE bounds)
RECURSIVE ListSize(_)
ListSize(h) == IF h = <<>> THEN 0 ELSE h[1].sz + ListSize(Tail(h))

\* a header field as an observer sees it on the wire / in an event
Wire(t, ty) == [n |-> t.n, v |-> t.v, ni |-> t.k = "N", ty |-> ty]
WireList(h, ty) == [i \in Idx(h) |-> Wire(h[i], ty)]

\* ---------------------------------------------------------------- features read before any normalisation
\* utilities.is_informational_response: walks the leading pseudo-headers, the first :status decides
IsInformational(h) ==
  \E i \in Idx(h) : /\ h[i].n = ":status" /\ h[i].v1
                    /\ \A j \in 1..(i-1) : h[j].np /\ h[j].n # ":status"
\* utilities.extract_method_header / authority_from_headers: first exact match on the name as given
FirstIdx(h, name) == CHOOSE i \in Idx(h) : h[i].n = name /\ \A j \in 1..(i-1) : h[j].n # name
HasName(h, name) == \E i \in Idx(h) : h[i].n = name
MethodOf(h)    == IF HasName(h, ":method") THEN h[FirstIdx(h, ":method")].v ELSE "None"
AuthorityOf(h) == IF HasName(h, ":authority") THEN h[FirstIdx(h, ":authority")].v ELSE "None"
\* stream._initialize_content_length: the first "content-length" field
HasCL(h)  == HasName(h, "content-length")
CLTok(h)  == h[FirstIdx(h, "content-length")]

\* ---------------------------------------------------------------- outbound normalisation
\* _lowercase_header_names, _strip_surrounding_whitespace, _secure_headers on one field
NormTok(t) ==
  [t EXCEPT !.n = t.nl, !.v = t.vs, !.vlo = t.vslo, !.nu = FALSE, !.ne = (t.nl = ""), !.nw = FALSE,
            !.vlead = FALSE, !.vtrail = FALSE, !.np = t.nlp, !.v1 = t.vs1, !.sz = t.nsz,
            !.k = IF (t.k = "N") \/ (t.nl \in SecureNames) \/ (t.nl = "cookie" /\ t.vsn < 20) THEN "N" ELSE t.k]
NormalizeOut(h) ==      \* ... and _strip_connection_headers
  SelectSeq([i \in Idx(h) |-> NormTok(h[i])], LAMBDA t : t.n \notin ConnSpecific)

\* ---------------------------------------------------------------- the validation rules (shared by both directions)
\* kind in {"req", "resp", "trl", "push"}: what the stream state machine says this block is
SameField(a, b) == a.n = b.n          \* (names are compared as octets: b':method' and ':method' are the same field; repo fix)
BadTE(t)   == t.n = "te" /\ t.vlo # "trailers"
BadConn(t) == t.n \in ConnSpecific
DupPseudo(h, i) == h[i].np /\ \E j \in 1..(i-1) : h[j].np /\ SameField(h[i], h[j])
OutOfSeq(h, i)  == h[i].np /\ \E j \in 1..(i-1) : ~h[j].np
Custom(t)       == t.np /\ t.n \notin KnownPseudo
EmptyPath(t, kind) == kind \in {"req", "push"} /\ t.n = ":path" /\ t.v = ""
FieldBad(h, i, kind) == BadTE(h[i]) \/ BadConn(h[i]) \/ DupPseudo(h, i) \/ OutOfSeq(h, i) \/ Custom(h[i]) \/ EmptyPath(h[i], kind)

PseudoNames(h) == {h[i].n : i \in {j \in Idx(h) : h[j].np}}
LastIdx(h, name) == LET S == {i \in Idx(h) : h[i].n = name} IN CHOOSE i \in S : \A j \in S : j <= i
BlockMethod(h) == IF HasName(h, ":method") THEN h[LastIdx(h, ":method")].v ELSE "None"   \* the validator keeps the last one
AcceptablePseudo(h, kind) ==
  LET P == PseudoNames(h) IN
  CASE kind = "trl"  -> P = {}
    [] kind = "resp" -> ":status" \in P /\ P \cap RequestOnly = {}
    [] OTHER         -> /\ {":path", ":method", ":scheme"} \subseteq P
                        /\ ":status" \notin P
                        /\ (BlockMethod(h) # "CONNECT" => ":protocol" \notin P)
LastVal(h, name) == IF HasName(h, name) THEN LET t == h[LastIdx(h, name)] IN <<[v |-> t.v, ty |-> t.ty]>> ELSE <<>>
HostAuthorityOK(h, kind) ==         \* only the LAST :authority and the LAST host are compared
  kind \in {"resp", "trl"} \/
  LET a == LastVal(h, ":authority")
      host == LastVal(h, "host")
  IN /\ (a # <<>> \/ host # <<>>)
     /\ (a # <<>> /\ host # <<>>) => a = host
BlockOK(h, kind) == AcceptablePseudo(h, kind) /\ HostAuthorityOK(h, kind)

\* ---------------------------------------------------------------- outbound pipeline
\* result: ok; h = the tokens that go on the wire; clean = no field reached the HPACK encoder before the failure
\* (normalisation and validation are lazy generators consumed inside the encoder)
OutPipeline(h, kind, normalize, validate) ==
  LET w == IF normalize THEN NormalizeOut(h) ELSE h
      bad == {i \in Idx(w) : FieldBad(w, i, kind)}
      ok == ~validate \/ (bad = {} /\ BlockOK(w, kind))
  IN [ok |-> ok,
      h |-> [i \in Idx(w) |-> [w[i] EXCEPT !.ty = "b"]],
      clean |-> ok \/ (bad # {} /\ 1 \in bad) \/ w = <<>>]

\* ---------------------------------------------------------------- inbound pipeline
RECURSIVE JoinCookies(_)
JoinCookies(vals) == IF Len(vals) = 1 THEN vals[1] ELSE vals[1] \o "; " \o JoinCookies(Tail(vals))
\* utilities._combine_cookie_fields: all cookie fields leave their place; one joined never-indexed field is appended
CombineCookies(h) ==
  LET cs == SelectSeq(h, LAMBDA t : t.n = "cookie")
      rest == SelectSeq(h, LAMBDA t : t.n # "cookie")
  IN IF cs = <<>> THEN h
     ELSE LET joined == JoinCookies([i \in Idx(cs) |-> cs[i].v])
              a == cs[1]
              b == cs[Len(cs)]
          IN rest \o <<[a EXCEPT !.v = joined, !.vs = joined, !.vlo = joined, !.vslo = joined, !.k = "N",
                                 !.vlead = (a.v # "" /\ a.vlead),            \* "" + "; " starts with ";": not whitespace
                                 !.vtrail = (IF b.v # "" THEN b.vtrail ELSE Len(cs) > 1),  \* "...; " ends with a space
                                 !.ci = FALSE, !.civ = 0,
                                 !.u8 = \A i \in Idx(cs) : cs[i].u8]>>

InOK(h)    == [c |-> "ok", h |-> h]
InErr(cls) == [c |-> cls, h |-> <<>>]

\* per-field failure of validate_headers + header_encoding, in the library's order; "none" if the field passes
InFieldFailure(h, i, kind, validate, decode) ==
  LET t == h[i] IN
  IF validate /\ t.nu THEN "ProtocolError"
  ELSE IF validate /\ t.ne THEN "ProtocolError"                     \* an empty name is refused (repo fix, see known_findings.json)
  ELSE IF validate /\ (t.nw \/ t.vlead \/ t.vtrail) THEN "ProtocolError"
  ELSE IF validate /\ FieldBad(h, i, kind) THEN "ProtocolError"
  ELSE IF decode /\ ~t.u8 THEN "ProtocolError"                      \* undecodable text is refused (repo fix, see known_findings.json)
  ELSE "none"

\* result: c = "ok" and h = delivered wire fields, or c = the exception class
InPipeline(h0, kind, normalize, validate, decode) ==
  LET h == IF normalize THEN CombineCookies(h0) ELSE h0
      F(i) == InFieldFailure(h, i, kind, validate, decode)
      bad == {i \in Idx(h) : F(i) # "none"}
  IN IF bad # {} THEN InErr(F(CHOOSE i \in bad : \A j \in bad : i <= j))
     ELSE IF validate /\ ~BlockOK(h, kind) THEN InErr("ProtocolError")
     ELSE InOK(WireList(h, IF decode THEN "s" ELSE "b"))
=============================================================================
