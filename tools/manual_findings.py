"""Development tool (never run by a check): known findings that are not a deviation branch of spec/H2.tla but an exemption
of a property formula (spec/Scn.tla): each is a short program against the real code whose recorded observation shows the failure.
Adds/refreshes those entries in known_findings.json."""
import json
import os
import sys

ROOT = os.path.dirname(os.path.dirname(os.path.abspath(__file__)))
sys.path.insert(0, ROOT)
from harness import findings, replay  # noqa: E402

FULL = {'vi': True, 'ni': True, 'vo': True, 'no': True, 'enc': False}
PAIR = {'roles': ['c', 's'], 'qsids': [1, 2, 3], 'max_closed': 2, 'cfg': {'c': FULL, 's': FULL},
        'setup': [{'a': 'call', 'x': 'c', 'c': {'op': 'init'}}, {'a': 'call', 'x': 's', 'c': {'op': 'init'}},
                  {'a': 'dlv', 'x': 's', 'k': 1}, {'a': 'dlv', 'x': 'c', 'k': 2}, {'a': 'dlv', 'x': 's', 'k': 1}]}
CLIENT = {'roles': ['c'], 'qsids': [1, 3], 'max_closed': 2, 'cfg': {'c': FULL, 's': FULL},
          'setup': [{'a': 'call', 'x': 'c', 'c': {'op': 'init'}}, {'a': 'recv', 'x': 'c', 'fs': [{'t': 'SET', 'ack': False, 's': []}]}]}
TEXT_RE = {'decode_error_text_embeds_address': r'<memory at 0x[0-9a-fA-F]+>'}
MANUAL = [
    ('decode_error_text_embeds_address', ['C28'],
     'the ProtocolError raised for a header block whose HPACK integer is over-long carries the message of the hpack library, '
     'which contains the repr of a memoryview with its address ("Error decoding header block: Variable integer representation is '
     'too long: <memory at 0x7f...>"): the exception text differs from process to process for the same input. The text comes from '
     'the hpack dependency; h2 only passes it on, and dropping it would remove information, so it is recorded rather than '
     'repaired. Found by the two-interpreter comparison of recorded random traces (client/headers/510)', CLIENT,
     [{'a': 'call', 'x': 'c', 'c': {'op': 'hdr', 'sid': 1, 'h': 'req_get', 'es': False, 'pr': []}},
      {'a': 'recv', 'x': 'c', 'fs': [{'t': 'HEADERS', 'sid': 1, 'es': False, 'h': 'resp200', 'pr': [], 'blk': 'bad'}]}]),
    ('sent_window_overflow_unchecked', ['C01'],
     'update_settings announces an INITIAL_WINDOW_SIZE which, added to a stream window the same endpoint has enlarged with '
     'increment_flow_control_window, exceeds 2^31-1: the receiving h2 endpoint must treat the SETTINGS frame as a '
     'FLOW_CONTROL_ERROR and closes the connection (a successful send that the peer does not accept); found by trace validation: '
     'P_C01_DeliveredSendsAccepted on recorded trace pair/flow/2028', PAIR,
     [{'a': 'call', 'x': 'c', 'c': {'op': 'hdr', 'sid': 1, 'h': 'req_get', 'es': False, 'pr': []}},
      {'a': 'dlv', 'x': 's', 'k': 1},
      {'a': 'call', 'x': 'c', 'c': {'op': 'inc', 'n': 65535, 'sid': [1]}},
      {'a': 'call', 'x': 'c', 'c': {'op': 'set', 's': [[4, 2147483647]]}},
      {'a': 'dlv', 'x': 's', 'k': 2}]),
    ('sent_body_length_unchecked', ['C01'],
     'send_data/end_stream let the application send a body whose length contradicts the content-length it declared in its own '
     'header block; the receiving h2 endpoint then refuses the message with InvalidBodyLengthError and closes the connection (a '
     'successful send that the peer does not accept); found by trace validation: P_C01_DeliveredSendsAccepted on recorded '
     'client/server traces', PAIR,
     [{'a': 'call', 'x': 'c', 'c': {'op': 'hdr', 'sid': 1, 'h': 'req_post_cl3', 'es': False, 'pr': []}},
      {'a': 'call', 'x': 'c', 'c': {'op': 'data', 'sid': 1, 'n': 5, 'tag': 'A', 'es': True, 'pad': -1}},
      {'a': 'dlv', 'x': 's', 'k': 2}]),
    ('sent_content_length_unparsed', ['C01'],
     'send_headers emits a content-length field whose value is not a number (outbound validation does not look at it); the '
     'receiving h2 endpoint refuses the block with ProtocolError ("Invalid content-length header") and closes the connection '
     '(a successful send that the peer does not accept); found by trace validation under another seed: '
     'P_C01_DeliveredSendsAccepted on recorded trace pair/mix/4000024', PAIR,
     [{'a': 'call', 'x': 'c', 'c': {'op': 'hdr', 'sid': 1, 'h': 'req_get', 'es': True, 'pr': []}},
      {'a': 'dlv', 'x': 's', 'k': 1},
      {'a': 'call', 'x': 's', 'c': {'op': 'hdr', 'sid': 1, 'h': 'resp_cl_bad', 'es': False, 'pr': []}},
      {'a': 'dlv', 'x': 'c', 'k': 1}]),
    ('sent_block_fails_inbound_rules', ['C01'],
     'outbound header validation is weaker than the library\'s own inbound validation: send_headers emits a field with an empty '
     'name; the receiving h2 endpoint refuses the block with ProtocolError ("Received header with an empty name") and closes '
     'the connection (a successful send that the peer does not accept); found by trace validation under another seed: '
     'P_C01_DeliveredSendsAccepted on recorded traces pair/life/5000030 and pair/push/5000030', PAIR,
     [{'a': 'call', 'x': 'c', 'c': {'op': 'hdr', 'sid': 1, 'h': 'req_emptyname', 'es': True, 'pr': []}},
      {'a': 'dlv', 'x': 's', 'k': 1}]),
    ('sent_header_list_unchecked', ['C01'],
     'send_headers emits a header list larger than the MAX_HEADER_LIST_SIZE the peer announced; the receiving h2 endpoint refuses '
     'it with DenialOfServiceError (ENHANCE_YOUR_CALM) and closes the connection (a successful send that the peer does not '
     'accept); found by trace validation: P_C01_DeliveredSendsAccepted on recorded client/server traces', PAIR,
     [{'a': 'call', 'x': 's', 'c': {'op': 'set', 's': [[6, 100]]}},
      {'a': 'dlv', 'x': 'c', 'k': 1},
      {'a': 'dlv', 'x': 's', 'k': 1},
      {'a': 'call', 'x': 'c', 'c': {'op': 'hdr', 'sid': 1, 'h': 'req_cookies', 'es': True, 'pr': []}},
      {'a': 'dlv', 'x': 's', 'k': 1}]),
]


def main():
    cat = replay.load_catalogue()
    cur = findings.load()
    by = {f['deviation']: f for f in cur['findings']}
    for dev, props, what, meta, steps in MANUAL:
        prog = {'meta': meta, 'steps': steps}
        obs = findings.run_program(prog, cat, len(steps))
        print(dev, obs['r'], [f['t'] for f in obs['o']])
        by[dev] = {'id': dev, 'properties': props, 'deviation': dev, 'what': what, 'scenario': 'manual (from recorded traces)',
                   'program': prog, 'at': len(steps), 'asbuilt': {k: obs[k] for k in ('r', 'o', 'e', 'q', 'z')}}
        if dev in TEXT_RE:
            import re
            assert re.search(TEXT_RE[dev], obs['x']['exc']), obs['x']
            by[dev]['text_re'] = TEXT_RE[dev]
    cur['findings'] = [by[d] for d in sorted(by)]
    json.dump(cur, open(findings.PATH, 'w'), indent=1, sort_keys=True)
    print(len(cur['findings']), 'findings')


if __name__ == '__main__':
    main()
