#!/bin/sh
# Development tool: tools/seedcheck.sh <seed-dir-name> [property]  -- applies seeded/<name>/patch.diff to a scratch copy of
# /repo/src (under /dev/shm, removed afterwards) and runs the registered quick check of the property against it.
NAME=$1; PID=${2:-$(echo $NAME | cut -c1-3)}
S=/dev/shm/seedchk_$NAME
rm -rf $S; mkdir -p $S; cp -r /repo/src $S/src
if ! patch -s -p1 -d $S -i /verif/seeded/$NAME/patch.diff >/dev/null 2>&1; then echo "$NAME PATCH-FAILED"; rm -rf $S; exit 3; fi
cd /verif
OUT=$(H2_REPO_SRC=$S/src VERIF_EVIDENCE_DIR=/dev/shm/seedchk_ev ./check $PID --tier quick 2>&1); RC=$?
rm -rf $S
echo "$NAME property=$PID exit=$RC $(echo "$OUT" | grep -c '^VIOLATION') violation lines; first: $(echo "$OUT" | grep -A1 '^VIOLATION' | head -2 | tr '\n' ' ' | cut -c1-330)"
[ $RC -eq 2 ] && echo "$OUT" | tail -5
exit 0
