"""Development tool: write the table of seeded changes and what catches them into DESIGN.md (between the markers)."""
import json
import os
import re

ROOT = os.path.dirname(os.path.dirname(os.path.abspath(__file__)))
rows = []
for name in sorted(os.listdir(os.path.join(ROOT, 'seeded'))):
    mp = os.path.join(ROOT, 'seeded', name, 'meta.json')
    if not os.path.exists(mp):
        continue
    m = json.load(open(mp))
    notes = m.get('what_and_what_it_needs_to_manifest', '')
    first = next((l.strip('# -*').strip() for l in notes.splitlines() if len(l.strip()) > 40), '')
    cr = m['check_result']
    by = ''
    mm = re.search(r'scenario=(.*?) kind=(\S+) fields=(\[[^\]]*\])', cr.get('first_violation', ''))
    if mm:
        sc = mm.group(1)
        by = ('recorded trace ' + sc.split()[-1] if sc.startswith('trace') else ('repository test' if sc.startswith('repository') else sc)) + ' ' + mm.group(3)
    rows.append('| `%s` | %s | %s | %s |' % (name, first[:150].replace('|', '/'), cr['verdict'], by[:90].replace('|', '/')))
n = sum(1 for r in rows if '| detected |' in r)
table = ['<!-- seedtable:begin -->', '%d of %d seeded changes are reported by the quick check of their own property (last sweep: `tools/seedsweep.py`, verdicts in '
         '`seeded/*/meta.json`).' % (n, len(rows)), '', '| change | what it is (first line of its notes) | verdict | first report: scenario / trace and fields |', '|---|---|---|---|'] + rows + ['<!-- seedtable:end -->']
p = os.path.join(ROOT, 'DESIGN.md')
s = open(p).read()
if '<!-- seedtable:begin -->' in s:
    s = re.sub(r'<!-- seedtable:begin -->.*?<!-- seedtable:end -->', lambda _: '\n'.join(table), s, flags=re.S)
else:
    s = s.replace('### Commands, evidence, layout', '\n'.join(table) + '\n\n### Commands, evidence, layout', 1)
open(p, 'w').write(s)
print(n, len(rows))
