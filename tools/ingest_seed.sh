#!/bin/sh
# usage: tools/ingest_seed.sh <PID> <dir-with-OUT>   -- verifies a seeded change independently and stores it under seeded/<PID>[-n]

PID=$1; SRC=$2; NAME=${3:-$PID}
WT=/tmp/sv_$NAME
rm -rf $WT; git -C /repo worktree prune; git -C /repo worktree add -q --detach $WT HEAD
cd $WT
R0=$(PYTHONPATH=$WT/src /venv/bin/python $SRC/demo.py >/dev/null 2>&1; echo $?)
if ! git apply $SRC/patch.diff; then echo "PATCH DOES NOT APPLY"; git -C /repo worktree remove --force $WT; exit 3; fi
R1=$(PYTHONPATH=$WT/src /venv/bin/python $SRC/demo.py >/dev/null 2>&1; echo $?)
SUITE=$(PYTHONPATH=$WT/src /venv/bin/python -m pytest -q -p no:cacheprovider -n 6 test 2>&1 | tail -1)
FAILSET=$(PYTHONPATH=$WT/src /venv/bin/python -m pytest -q -p no:cacheprovider -n 6 test 2>&1 | grep ^FAILED | sort | md5sum | cut -c1-8)
cd /verif
git -C /repo worktree remove --force $WT
echo "$NAME demo_without=$R0 demo_with=$R1 suite='$SUITE' failset=$FAILSET"
mkdir -p seeded/$NAME
cp $SRC/patch.diff $SRC/demo.py seeded/$NAME/
[ -f $SRC/notes.md ] && cp $SRC/notes.md seeded/$NAME/notes.md
cat > seeded/$NAME/verify.txt <<EOT
verified by tools/ingest_seed.sh in a scratch worktree of /repo HEAD $(git -C /repo rev-parse --short HEAD):
demo.py exit without patch: $R0 (expected 0)
demo.py exit with patch:    $R1 (expected non-zero)
suite with patch:           $SUITE (baseline: 11 failed, 1403 passed)
failed-set digest:          $FAILSET
EOT
