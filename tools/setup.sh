#!/bin/sh
# Offline setup: nothing is built or fetched; verify the tools the checks call and create the scratch directories.
cd "$(dirname "$0")/.." || exit 1
mkdir -p .work evidence
command -v tlc >/dev/null || { echo "tlc not on PATH"; exit 1; }
[ -x /venv/bin/python ] || { echo "/venv/bin/python missing"; exit 1; }
/venv/bin/python -c "import hpack, hyperframe" || { echo "hpack/hyperframe not importable"; exit 1; }
command -v apalache-mc >/dev/null || { echo "apalache-mc not on PATH (needed by the C05 check)"; exit 1; }
/venv/bin/python -c "import pytest" || { echo "pytest not importable (needed to record the repository's tests)"; exit 1; }
chmod +x check 2>/dev/null
echo "setup ok"
