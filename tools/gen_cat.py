"""Generates spec/Cat.tla: the catalogue of header lists the scenario models draw from.
Each list is written as a sequence of token records whose features are computed by the
same harness function (absn.tok) that abstracts recorded executions, so TLA+ never
chooses a feature value and the concrete header is recoverable from (n, v, ty, k).
Run once after editing; Cat.tla is committed."""
import json
import os
import sys

sys.path.insert(0, os.path.join(os.path.dirname(__file__), '..'))
from harness.absn import tok  # noqa: E402

B = lambda n, v, k='t': tok(n.encode('latin-1'), v.encode('latin-1'), k)
S = lambda n, v, k='t': tok(n, v, k)

REQ = [B(':method', 'GET'), B(':scheme', 'https'), B(':authority', 'a.example'), B(':path', '/')]


def req(method='GET', extra=(), authority='a.example', path='/'):
    h = [B(':method', method), B(':scheme', 'https')]
    if authority is not None:
        h.append(B(':authority', authority))
    if path is not None:
        h.append(B(':path', path))
    return h + list(extra)


CAT = {
    # ---- well-formed blocks
    'req_get': req(),
    'req_head': req('HEAD'),
    'req_post_cl3': req('POST', [B('content-length', '3')]),
    'req_post_cl0': req('POST', [B('content-length', '0')]),
    'req_get_b': req(path='/b', extra=[B('x-k', 'v1')]),
    'req_connect_proto': [B(':method', 'CONNECT'), B(':scheme', 'https'), B(':authority', 'a.example'), B(':path', '/'),
                          B(':protocol', 'websocket')],
    'req_host_only': [B(':method', 'GET'), B(':scheme', 'https'), B(':path', '/'), B('host', 'a.example')],
    'req_cookies': req(extra=[B('cookie', 'a=1'), B('x-k', 'v1'), B('cookie', 'bbbbbbbbbbbbbbbbbbbbbbbbbbbb=2')]),
    'req_str': [S(':method', 'GET'), S(':scheme', 'https'), S(':authority', 'a.example'), S(':path', '/s')],
    'resp200': [B(':status', '200'), B('server', 'x')],
    'resp200_cl3': [B(':status', '200'), B('content-length', '3')],
    'resp200_cl0': [B(':status', '200'), B('content-length', '0')],
    'resp204': [B(':status', '204')],
    'resp204_cl3': [B(':status', '204'), B('content-length', '3')],
    'resp304_cl3': [B(':status', '304'), B('content-length', '3')],
    'resp404': [B(':status', '404'), B('x-k', 'v1')],
    'info100': [B(':status', '100')],
    'info103': [B(':status', '103'), B('link', '</s>')],
    'info100_cl3': [B(':status', '100'), B('content-length', '3')],
    'trl': [B('x-trailer', 't1')],
    'trl2': [B('x-k', 'v1'), B('x-trailer', 't2')],
    # ---- blocks normalisation repairs (outbound): upper-case names, padded values, connection-specific fields,
    #      secure fields that must become never-indexed
    'req_messy': [B(':Method', 'GET'), B(':scheme', ' https'), B(':authority', 'a.example '), B(':path', '/'),
                  B('Connection', 'close'), B('X-Up', ' v '), B('authorization', 'secret'), B('cookie', 'short=1'),
                  B('Keep-Alive', 'x')],
    'resp_messy': [B(':status', '200 '), B('Transfer-Encoding', 'chunked'), B('Set-It', 'y'),
                   S('proxy-authorization', 'p')],
    'req_te_ok': req(extra=[B('te', 'Trailers')]),
    # ---- blocks that must be refused
    'req_nopath': req(path=None),
    'req_emptypath': req(path=''),
    'req_noauth': req(authority=None),
    'req_hostmismatch': req(extra=[B('host', 'b.example')]),
    'req_te_bad': req(extra=[B('te', 'gzip')]),
    'req_dupmethod': [B(':method', 'GET')] + req(),
    'req_latepseudo': [B(':method', 'GET'), B(':scheme', 'https'), B(':authority', 'a.example'), B('x-k', 'v1'),
                       B(':path', '/')],
    'req_lateauth': [B(':method', 'GET'), B(':scheme', 'https'), B(':path', '/'), B('x-k', 'v1'), B(':authority', 'a.example')],
    'req_custompseudo': req(extra=[]) [:3] + [B(':foo', 'x'), B(':path', '/')],
    'req_status': req() + [],
    'resp_method': [B(':status', '200'), B(':method', 'GET')],
    'resp_nostatus': [B('server', 'x')],
    'trl_pseudo': [B(':status', '200'), B('x-trailer', 't1')],
    'req_proto_get': req(extra=[]) [:4] + [B(':protocol', 'websocket')],
    'req_late_bad': req(extra=[B('x-k', 'v1'), B('te', 'gzip')]),
    # ---- inbound-only hostile blocks
    'req_upper': req(extra=[B('X-Up', 'v')]),
    'req_ws_name': req(extra=[B(' x-k', 'v')]),
    'req_ws_value': req(extra=[B('x-k', 'v ')]),
    'req_conn': req(extra=[B('connection', 'close')]),
    # whitespace other than space and tab at the edges of values (the library's own inbound rule counts all of string.whitespace)
    'req_ws_value_nl': req(extra=[B('x-k', 'v\n'), B('x-l', '\x0cw'), S('x-m', '\r\nu\x0b')]),
    'resp_ws_value_nl': [B(':status', '200'), B('x-k', 'v\r\n')],
    'req_emptyname': req(extra=[B('', 'v')]),
    'req_nonutf8': req(extra=[B('x-bin', '\xff\xfe')]),
    'resp_cl_bad': [B(':status', '200'), B('content-length', 'abc')],
    # two content-length fields that disagree (the library takes the first)
    'resp_cl_two': [B(':status', '200'), B('content-length', '3'), B('content-length', '5')],
    'req_cl_two': req(method='POST', extra=[B('content-length', '5'), B('content-length', '3')]),
    'resp_cl_neg': [B(':status', '200'), B('content-length', '-1')],
    'empty': [],
    # ---- corner cases added in round 2
    'req_secure_pad': req(extra=[B('Authorization', ' secret '), B('proxy-authorization ', 'p'), B('cookie', ' a=1 ')]),
    'req_emptyauth_host': [B(':method', 'GET'), B(':scheme', 'https'), B(':authority', ''), B(':path', '/'),
                           B('host', 'a.example')],
    'req_auth_emptyhost': req(extra=[B('host', '')]),
    'resp_status_abc': [B(':status', 'abc')],
    'resp_status_empty': [B(':status', ''), B('server', 'x')],
    'resp_status_1xx': [B(':status', '1xx')],
    # a cookie of 19 octets (never indexed: shorter than 20) given with a space in front of it (20 before it is trimmed)
    'req_cookie19ws': req(extra=[B('cookie', ' ' + 'c=' + 'x' * 17)]),
    'req_cookies_dup': req(extra=[B('cookie', 'a=1'), B('cookie', 'b=2'), B('cookie', 'c=3'), B('cookie', 'd=4'), B('cookie', 'a=1')]),
}
CAT['req_status'] = [B(':method', 'GET'), B(':scheme', 'https'), B(':authority', 'a.example'), B(':path', '/'),
                     B(':status', '200')]


# ---- header lists whose HPACK block has a chosen length (first block of a fresh encoder, default Huffman coding): the
#      block sizes are measured with the third-party hpack encoder, not with the library under test.  All fields are
#      already normalised (lower case, no surrounding whitespace, nothing sensitive), so the library encodes them as given.
def block_len(toks):
    from hpack import Encoder
    return len(Encoder().encode([(t['n'].encode('latin-1'), t['v'].encode('latin-1')) for t in toks]))


def sized(base, target):
    """base + one x-fill field whose value makes the encoded block exactly `target` octets long"""
    n = max(1, (target * 8) // 5 - 80)
    while True:
        for k in range(0, 9):
            toks = base + [B('x-fill', 'a' * n + '&' * k)]
            ln = block_len(toks)
            if ln == target:
                return toks
            if ln > target + 2:
                break
        n += 1
        if n > target * 2:
            raise RuntimeError('cannot reach block length %d' % target)


BIG = {}
for _t in (16379, 16380, 16383, 16384, 16385, 32768):
    BIG['req_big_%d' % _t] = sized(req(), _t)
for _t in (16380, 16384, 16385):
    BIG['resp_big_%d' % _t] = sized([B(':status', '200')], _t)
CAT.update(BIG)
# block length of each list when it is the first block a fresh HPACK encoder writes (-1: not measured / not stable)
BL0 = {name: (block_len(toks) if name in BIG or name in ('req_get', 'resp200', 'req_get_b', 'trl') else -1) for name, toks in CAT.items()}


# ---- single header fields by name: the alphabet from which the MC_HdrEnum* scenario models build header lists by edits
TOK = {
    'm_get': B(':method', 'GET'), 'm_head': B(':method', 'HEAD'), 'm_connect': B(':method', 'CONNECT'), 'scheme': B(':scheme', 'https'),
    'auth': B(':authority', 'a.example'), 'auth_b': B(':authority', 'b.example'), 'auth_empty': B(':authority', ''),
    'path': B(':path', '/'), 'path_empty': B(':path', ''), 'status200': B(':status', '200'), 'status100': B(':status', '100'),
    'status204': B(':status', '204'), 'status_abc': B(':status', 'abc'), 'proto': B(':protocol', 'websocket'), 'custom': B(':foo', 'x'),
    'xk': B('x-k', 'v1'), 'up': B('X-Up', 'v'), 'ws_name': B(' x-k', 'v'), 'ws_value': B('x-k', 'v '), 'conn': B('connection', 'close'),
    'te_ok': B('te', 'trailers'), 'te_bad': B('te', 'gzip'), 'host_a': B('host', 'a.example'), 'host_b': B('host', 'b.example'),
    'host_empty': B('host', ''), 'cookie_s': B('cookie', 'a=1'), 'cookie_l': B('cookie', 'bbbbbbbbbbbbbbbbbbbbbbbbbbbb=2'),
    'cl3': B('content-length', '3'), 'cl5': B('content-length', '5'), 'cl_bad': B('content-length', 'abc'), 'empty_name': B('', 'v'), 'nonutf8': B('x-bin', '\xff\xfe'),
    'authz': B('authorization', 'secret'), 's_xk': S('x-k', 'v1'), 's_method': S(':method', 'GET'), 'up_pseudo': B(':Method', 'GET'),
    'pad_value': B('x-pad', ' v '), 'keepalive': B('Keep-Alive', 'x'),
    'cookie19ws': B('cookie', ' ' + 'c=' + 'x' * 17), 'ws_value_nl': B('x-k', 'v\n'), 'ws_value_ff': B('x-k', '\x0cv'), 's_ws_value_nl': S('x-s', '\tv\r\n'),
}


def tla(v):
    if isinstance(v, bool):
        return 'TRUE' if v else 'FALSE'
    if isinstance(v, int):
        return str(v)
    if isinstance(v, str):
        out = ''
        for ch in v:
            if ch == '"' or ch == '\\':
                out += '\\' + ch
            elif 32 <= ord(ch) < 127:
                out += ch
            else:
                out += '?'     # placeholder inside TLA+ text; the real bytes are in Cat.json (see below)
        return '"' + out + '"'
    raise TypeError(v)


def main():
    here = os.path.join(os.path.dirname(__file__), '..', 'spec')
    lines = ['------------------------------- MODULE Cat -------------------------------',
             '(* GENERATED by tools/gen_cat.py -- the catalogue of header lists used by the scenario models. *)',
             '(* Every token is the feature record harness/absn.py tok() computes for a concrete field.     *)',
             'EXTENDS Integers', 'HL == [']
    items = []
    for name, toks in CAT.items():
        ts = []
        for t in toks:
            ts.append('[' + ', '.join('%s |-> %s' % (k, tla(v)) for k, v in t.items()) + ']')
        items.append('  %s |-> <<%s>>' % (name, ',\n      '.join(ts)))
    lines.append(',\n'.join(items))
    lines.append(']')
    lines.append('\\* single header fields by name (the alphabet of the MC_HdrEnum* scenario models)')
    lines.append('TOK == [' + ',\n  '.join('%s |-> [%s]' % (name, ', '.join('%s |-> %s' % (k, tla(v)) for k, v in t.items())) for name, t in TOK.items()) + ']')
    lines.append('\\* length of the HPACK block of a list when it is the first block of a fresh encoder (-1: not given)')
    lines.append('BL0 == [' + ', '.join('%s |-> %d' % (k, v) for k, v in BL0.items()) + ']')
    lines.append('=============================================================================')
    open(os.path.join(here, 'Cat.tla'), 'w').write('\n'.join(lines) + '\n')
    json.dump(dict(CAT, __tok__=TOK), open(os.path.join(here, 'Cat.json'), 'w'), indent=0, sort_keys=True)


if __name__ == '__main__':
    main()
