"""Development tool: mechanical one-token mutants of src/h2/*.py -- which survive the repository's test suite, and which of the
survivors do the spec-bound checks see?

  tools/mutsurvey.py gen <n> [seed]        sample n mutants (token replacements on code lines), keep those that survive the suite
  tools/mutsurvey.py cache <depth-delta>   (re)build the cache of TLC behaviours of every scenario model (quick depth + delta)
  tools/mutsurvey.py run                   replay the cached behaviours into every surviving mutant; record random traces with
                                           it and validate them with TLC; write .work/mutsurvey/results.json and print a table

Everything happens on scratch copies of /repo/src under /dev/shm (removed afterwards); /repo is never touched.
"""
import glob
import gzip
import hashlib
import io
import json
import os
import random
import re
import shutil
import subprocess
import sys
import tokenize

ROOT = os.path.dirname(os.path.dirname(os.path.abspath(__file__)))
sys.path.insert(0, ROOT)
OUT = os.environ.get('MUTSURVEY_DIR') or os.path.join(ROOT, '.work', 'mutsurvey')
CACHE = os.path.join(OUT, 'cache')
BASE_FAILSET = 'a791431c'

SWAPS = {'==': ['!='], '!=': ['=='], '<': ['<=', '>'], '<=': ['<'], '>': ['>=', '<'], '>=': ['>'], 'and': ['or'], 'or': ['and'],
         'True': ['False'], 'False': ['True'], '+': ['-'], '-': ['+'], 'not': [''], 'is': ['is not'], 'in': ['not in'],
         '+=': ['-='], '-=': ['+=']}


def candidates(path):
    """(line, col, old, new) for every token that has a replacement; docstrings, comments and strings are never touched."""
    src = open(path).read()
    out = []
    prev = None
    toks = list(tokenize.generate_tokens(io.StringIO(src).readline))
    for i, t in enumerate(toks):
        if t.type in (tokenize.OP, tokenize.NAME) and t.string in SWAPS:
            nxt = toks[i + 1].string if i + 1 < len(toks) else ''
            if t.string == 'is' and nxt == 'not':
                continue
            if t.string == 'not' and nxt == 'in':
                continue
            if t.string == 'in' and (prev in ('for', 'not') or any(x.string == 'for' for x in toks[max(0, i - 6):i] if x.start[0] == t.start[0])):
                continue
            if t.string in ('+', '-') and (prev in ('(', ',', '=', 'return', '[', ':') or prev is None):
                continue      # unary
            for new in SWAPS[t.string]:
                out.append((t.start[0], t.start[1], t.string, new))
        elif t.type == tokenize.NUMBER and t.string.isdigit() and int(t.string) < 100000:
            out.append((t.start[0], t.start[1], t.string, str(int(t.string) + 1)))
        if t.type not in (tokenize.NL, tokenize.NEWLINE, tokenize.INDENT, tokenize.DEDENT, tokenize.COMMENT):
            prev = t.string
    return out


def apply(src_dir, rel, line, col, old, new):
    p = os.path.join(src_dir, rel)
    lines = open(p).read().split('\n')
    l = lines[line - 1]
    assert l[col:col + len(old)] == old, (rel, line, col, old, l)
    lines[line - 1] = l[:col] + new + l[col + len(old):]
    open(p, 'w').write('\n'.join(lines))


def suite_survives(scratch):
    env = dict(os.environ, PYTHONPATH=os.path.join(scratch, 'src'))
    p = subprocess.run([sys.executable, '-m', 'pytest', '-q', '-p', 'no:cacheprovider', '-n', '6', 'test'], cwd='/repo', env=env,
                       capture_output=True, text=True)
    failed = sorted(l for l in p.stdout.splitlines() if l.startswith('FAILED'))
    digest = hashlib.md5(('\n'.join(failed) + '\n').encode()).hexdigest()[:8]
    return digest == BASE_FAILSET, p.stdout.strip().splitlines()[-1] if p.stdout.strip() else ''


def gen(n, seed):
    os.makedirs(OUT, exist_ok=True)
    rnd = random.Random(seed)
    files = sorted(glob.glob('/repo/src/h2/*.py'))
    files = [f for f in files if os.path.basename(f) not in ('__init__.py', 'errors.py', 'events.py', 'exceptions.py', 'config.py')]
    allc = []
    for f in files:
        rel = os.path.relpath(f, '/repo')
        for c in candidates(f):
            allc.append((rel,) + c)
    rnd.shuffle(allc)
    survivors = []
    tried = 0
    part = os.path.join(OUT, 'mutants_%d.json' % seed)
    done = set()
    if os.path.exists(part):
        prev = json.load(open(part))
        survivors, tried, done = prev['survivors'], prev['tried'], set(tuple(x) for x in prev['done'])
    for rel, line, col, old, new in allc:
        if (rel, line, col, new) in done:
            continue
        if len(survivors) >= n or tried >= n * 6:
            break
        text = open(os.path.join('/repo', rel)).read().split('\n')[line - 1]
        if 'logger' in text or 'raise' in text and old in ('+', '-') or text.strip().startswith(('"', "'", '#', 'assert')):
            continue
        tried += 1
        scratch = '/dev/shm/mut_gen_%d' % os.getpid()
        shutil.rmtree(scratch, ignore_errors=True)
        os.makedirs(scratch)
        shutil.copytree('/repo/src', os.path.join(scratch, 'src'))
        try:
            apply(scratch, rel, line, col, old, new)
            ok = subprocess.run([sys.executable, '-m', 'py_compile', os.path.join(scratch, rel)], capture_output=True).returncode == 0
            surv, tail = suite_survives(scratch) if ok else (False, 'does not compile')
        finally:
            shutil.rmtree(scratch, ignore_errors=True)
        print('%-24s %4d:%-3d %-6s -> %-7s %s   | %s' % (rel, line, col, old, new or "''", 'SURVIVES' if surv else 'killed by suite', text.strip()[:90]), flush=True)
        if surv:
            survivors.append({'file': rel, 'line': line, 'col': col, 'old': old, 'new': new, 'text': text.strip()})
        done.add((rel, line, col, new))
        json.dump({'seed': seed, 'tried': tried, 'survivors': survivors, 'done': sorted(done)}, open(part, 'w'))
    print('%d mutants tried, %d survive the suite' % (tried, len(survivors)))


def cache(delta):
    from harness import tlcrun, check, replay, props
    os.makedirs(CACHE, exist_ok=True)
    mods = {}
    for pid, sp in props.PROPS.items():
        for s in sp['scenarios']:
            if 'quick' in s['depth'] and not s.get('chunked') and not s.get('hashseeds'):
                mods[s['module']] = max(mods.get(s['module'], 0), s['depth']['quick'])
    for m, d in sorted(mods.items()):
        res = tlcrun.run(m, check.cfg_text(d + delta, True, []), os.path.join(OUT, 'gen_' + m), workers=1, timeout=2400)
        shutil.rmtree(os.path.join(OUT, 'gen_' + m), ignore_errors=True)
        if res['error'] or not res['meta']:
            print(m, 'TLC FAILED', (res['error'] or '')[:300])
            continue
        with gzip.open(os.path.join(CACHE, '%s.json.gz' % m), 'wt') as fh:
            json.dump({'meta': res['meta'], 'traces': res['traces'], 'depth': d + delta}, fh)
        print(m, 'depth', d + delta, 'behaviours', len(res['traces']), 'tlc %.1fs' % res['wall_s'], flush=True)


def one(srcdir):
    """(internal) replay every cache + validate recorded traces against the tree at srcdir; prints one JSON line."""
    os.environ['H2_REPO_SRC'] = srcdir
    from harness import replay, gen as G, tv
    cat = replay.load_catalogue()
    hits = []
    for c in sorted(glob.glob(os.path.join(CACHE, '*.json.gz'))):
        with gzip.open(c, 'rt') as fh:
            d = json.load(fh)
        divs, nb, ns = replay.replay_all(d['meta'], d['traces'], cat, procs=10)
        if divs:
            dv = divs[0]
            hits.append({'by': os.path.basename(c).split('.')[0], 'n': len(divs), 'fields': dv.get('fields'), 'call': json.dumps(dv.get('call'))[:120]})
            if len(hits) >= 3:
                break
    tvhit = None
    if not hits:
        traces = []
        i = 0
        for p in ('s', 'c', 'pair'):
            for f in ('mix', 'flow', 'settings', 'life', 'push', 'headers', 'close', 'misc', 'upgrade', 'raw'):
                if p == 'pair' and f == 'raw':
                    continue
                for k in range(6):
                    i += 1
                    try:
                        traces.append(G.trace(p, f, 9000 + i, 60))
                    except Exception as e:
                        tvhit = {'by': 'recording crashed: %r' % (e,)}
        if tvhit is None:
            res, stats = tv.validate(traces, os.path.join(OUT, 'tv_%d' % os.getpid()))
            for t, r in zip(traces, res):
                if r['k'] == 'rejected':
                    tvhit = {'by': 'recorded trace ' + t['id'], 'fields': r['fields'], 'at': r['at']}
                    break
    print(json.dumps({'hits': hits, 'tv': tvhit}))


def run():
    muts, seen_keys, tried = [], set(), 0
    for f in sorted(glob.glob(os.path.join(OUT, 'mutants_*.json'))):
        d = json.load(open(f))
        tried += d['tried']
        for m in d['survivors']:
            k = (m['file'], m['line'], m['col'], m['new'])
            if k not in seen_keys:
                seen_keys.add(k)
                muts.append(m)
    print('%d suite-surviving mutants out of %d tried' % (len(muts), tried))
    results = []
    for k, m in enumerate(muts):
        scratch = '/dev/shm/mut_run_%d' % os.getpid()
        shutil.rmtree(scratch, ignore_errors=True)
        os.makedirs(scratch)
        shutil.copytree('/repo/src', os.path.join(scratch, 'src'))
        apply(scratch, m['file'], m['line'], m['col'], m['old'], m['new'])
        p = subprocess.run([sys.executable, os.path.abspath(__file__), 'one', os.path.join(scratch, 'src')], capture_output=True, text=True, cwd=ROOT,
                           env=dict(os.environ, PYTHONHASHSEED='0'))
        shutil.rmtree(scratch, ignore_errors=True)
        try:
            out = json.loads(p.stdout.strip().splitlines()[-1])
        except Exception:
            out = {'hits': [], 'tv': None, 'err': (p.stderr or p.stdout)[-300:]}
        seen = bool(out['hits']) or bool(out.get('tv'))
        by = out['hits'][0]['by'] + ' ' + str(out['hits'][0]['fields']) if out['hits'] else (out['tv']['by'] + ' ' + str(out['tv'].get('fields')) if out.get('tv') else 'NOT SEEN')
        results.append(dict(m, seen=seen, by=by, detail=out))
        print('%-22s %4d %-6s -> %-7s %-50s | %s' % (m['file'], m['line'], m['old'], m['new'] or "''", by[:50], m['text'][:80]), flush=True)
    json.dump(results, open(os.path.join(OUT, 'results.json'), 'w'), indent=1)
    print('%d of %d suite-surviving mutants are seen by the spec-bound checks' % (sum(1 for r in results if r['seen']), len(results)))


if __name__ == '__main__':
    if sys.argv[1] == 'gen':
        gen(int(sys.argv[2]), int(sys.argv[3]) if len(sys.argv) > 3 else 0)
    elif sys.argv[1] == 'cache':
        cache(int(sys.argv[2]) if len(sys.argv) > 2 else 0)
    elif sys.argv[1] == 'one':
        one(sys.argv[2])
    else:
        run()
