"""Development tool: record random executions of the real code and validate them against the specification.

  tools/tvsweep.py <n-per-combination> <length> [seed0] [profile,profile..] [flavour,flavour..]

Prints verdict counts and, for every rejected trace or failed formula, a short description grouped by kind.
"""
import collections
import json
import os
import sys
import time

ROOT = os.path.dirname(os.path.dirname(os.path.abspath(__file__)))
sys.path.insert(0, ROOT)
from harness import gen, tv  # noqa: E402

PROFILES = ['s', 'c', 'pair']
FLAVOURS = ['mix', 'flow', 'settings', 'life', 'push', 'headers', 'close', 'misc']


def show(t, r, out=sys.stdout):
    st = t['steps'][r['at'] - 1]
    print('---', t['id'], 'step', r['at'], json.dumps({k: v for k, v in st.items() if k != 'p'})[:400], 'dev', r.get('dev'), file=out)
    for f in r['fields']:
        top = f.split('.')[0]
        pv = r['pred'][top]
        ov = st['p'][top]
        if '.' in f:
            pv = pv.get(f.split('.')[1])
            ov = ov.get(f.split('.')[1])
        print('   %s\n     spec: %s\n     code: %s' % (f, json.dumps(pv)[:900], json.dumps(ov)[:900]), file=out)
    for j in range(r['at'] - 2, -1, -1):
        q = t['steps'][j]
        if q['x'] == st['x']:
            z = q['p']['z']
            print('   state before: conn', z['conn'], 'hi', z['hiIn'], z['hiOut'], 'pend', z.get('pend'), 'iw', z['iw'], 'ow', z['ow'], file=out)
            for sm in z['streams']:
                print('      ', json.dumps(sm)[:400], file=out)
            print('       closed', z['closed'], 'ls', z['ls'], 'rs', z['rs'], file=out)
            break
    for j in range(max(0, r['at'] - 7), r['at'] - 1):
        q = t['steps'][j]
        print('   prev', j + 1, json.dumps({k: v for k, v in q.items() if k != 'p'})[:300], q['p']['r']['c'], file=out)


def main():
    n = int(sys.argv[1])
    length = int(sys.argv[2])
    seed0 = int(sys.argv[3]) if len(sys.argv) > 3 else 0
    profiles = sys.argv[4].split(',') if len(sys.argv) > 4 else PROFILES
    flavours = sys.argv[5].split(',') if len(sys.argv) > 5 else FLAVOURS
    t0 = time.time()
    traces = []
    for p in profiles:
        for f in flavours:
            for i in range(n):
                cfg = None
                if os.environ.get('TVSWEEP_CFG'):
                    # a configuration per trace: validation / normalisation switches and header_encoding, in rotation
                    k = (seed0 + i) % 8
                    one = {'vi': k not in (1, 5), 'ni': k not in (2, 5), 'vo': k not in (3, 6), 'no': k not in (4, 6), 'enc': k == 7}
                    cfg = {'c': one, 's': one}
                traces.append(gen.trace(p, f, seed0 + i, length, cfg=cfg))
    nsteps = sum(len(t['steps']) for t in traces)
    print('recorded %d traces, %d steps in %.1fs' % (len(traces), nsteps, time.time() - t0))
    res, stats = tv.validate(traces, os.path.join(ROOT, '.work', 'tvsweep_%d' % os.getpid()))
    print({k: v for k, v in stats.items() if k not in ('errors', 'cases')})
    print('least frequent cases:', sorted(stats.get('cases', {}).items(), key=lambda kv: kv[1])[:14])
    for e in stats['errors'][:3]:
        print('TLC ERROR', e[:3000])
    print(collections.Counter(r['k'] for r in res))
    kinds = collections.Counter()
    shown = set()
    for t, r in zip(traces, res):
        for pf in r['propfails']:
            st = t['steps'][pf['at'] - 1]
            key = ('PROPFAIL', pf['formula'])
            kinds[key] += 1
            if key not in shown:
                shown.add(key)
                print('PROPFAIL', t['id'], pf['formula'], 'at', pf['at'], json.dumps({k: v for k, v in st.items() if k != 'p'})[:300],
                      json.dumps(st['p']['r']), json.dumps(st['p']['o'])[:300])
        if r['k'] in ('rejected', 'missing'):
            st = t['steps'][r['at'] - 1] if r['at'] else {}
            what = st.get('c', {}).get('op') if st.get('a') == 'call' else (','.join(f['t'] for f in st.get('fs', [])) or st.get('a'))
            key = (r['k'], what, tuple(sorted(r['fields'])), tuple(sorted(r.get('dev') or [])))
            kinds[key] += 1
            if key not in shown and r['k'] == 'rejected':
                shown.add(key)
                show(t, r)
    for k, v in kinds.most_common():
        print(v, k)


if __name__ == '__main__':
    main()
