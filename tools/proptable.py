"""Development tool: write the per-property table (what decides each property) into DESIGN.md between the markers."""
import os
import re
import sys

ROOT = os.path.dirname(os.path.dirname(os.path.abspath(__file__)))
sys.path.insert(0, ROOT)
from harness import props  # noqa: E402

rows = []
for pid in sorted(props.PROPS):
    sp = props.PROPS[pid]
    mods = []
    for s in sp['scenarios']:
        d = s['depth']
        tag = '' if ('quick' in d and 'thorough' in d) else ' (thorough only)' if 'thorough' in d else ' (quick only)'
        nm = s['module'].replace('MC_', '') + ('*' if s.get('chunked') else '') + ('#' if s.get('hashseeds') else '') + tag
        if nm not in mods:
            mods.append(nm)
    forms = sorted({f for s in sp['scenarios'] for f in s.get('invariants', [])} | set(props.FORMULAS.get(pid, [])))
    tvp = sorted({'%s/%s' % (e['profile'], e['flavour']) + ('*' if e.get('chunked') else '') + ('#' if e.get('hashseeds') else '') for e in props.TV.get(pid, [])})
    corp = [os.path.basename(f).replace('test_', '').replace('.py', '') for f in props.CORPUS.get(pid, [])]
    extra = 'Apalache: ' + props.APALACHE[pid][0] if pid in getattr(props, 'APALACHE', {}) else ''
    rows.append('| %s | %s | %s | %s | %s | %s |' % (pid, ', '.join(mods), ', '.join(f.replace('P_%s_' % pid, '') for f in forms), ', '.join(tvp), ', '.join(corp), extra))
table = ['<!-- proptable:begin -->',
         '| property | scenario models (spec -> code; `*` chunked feeding, `#` two hash seeds) | formulas (TLC invariants, also evaluated on every recorded state) | recording profiles (code -> spec) | repository tests recorded (quick tier) | other |',
         '|---|---|---|---|---|---|'] + rows + ['<!-- proptable:end -->']
p = os.path.join(ROOT, 'DESIGN.md')
s = open(p).read()
if '<!-- proptable:begin -->' in s:
    s = re.sub(r'<!-- proptable:begin -->.*?<!-- proptable:end -->', lambda _: '\n'.join(table), s, flags=re.S)
else:
    s = s.replace('### Decisions (differences from the round-0 plan)', '### What decides each property\n\n' + '\n'.join(table) + '\n\n### Decisions (differences from the round-0 plan)', 1)
open(p, 'w').write(s)
print(len(rows))
