"""Development tool: the recorded-execution part of every quick check under other seeds (the scenario model checking does not
depend on the seed): records what ./check <id> --tier quick would record for VERIF_SEED=<seed> and validates it.
   tools/seedscan.py <seed> [<seed> ...]     prints rejected traces and failed formulas of the property's own list"""
import collections
import json
import os
import sys

ROOT = os.path.dirname(os.path.dirname(os.path.abspath(__file__)))
sys.path.insert(0, ROOT)
from harness import check, props, tv  # noqa: E402
from tools import tvsweep  # noqa: E402

for seed in [int(a) for a in sys.argv[1:]]:
    traces, owner = [], []
    for pid in sorted(props.PROPS):
        if any(e.get('hashseeds') for e in props.TV.get(pid, [])):
            pass
        for t in check.record_traces(pid, 'quick', seed):
            traces.append(t)
            owner.append(pid)
    res, stats = tv.validate(traces, os.path.join(ROOT, '.work', 'seedscan_%d' % os.getpid()), timeout=3000)
    print('seed', seed, 'traces', len(traces), 'steps', sum(len(t['steps']) for t in traces), collections.Counter(r['k'] for r in res),
          'TLC errors', stats['errors'][:1], flush=True)
    for t, r, pid in zip(traces, res, owner):
        own = set(props.FORMULAS.get(pid, []))
        for pf in r['propfails']:
            if pf['formula'] in own:
                st = t['steps'][pf['at'] - 1]
                print('  PROPFAIL', pid, t['id'], t.get('chunk_seed'), pf['formula'], 'at', pf['at'], json.dumps({k: v for k, v in st.items() if k != 'p'})[:300], flush=True)
        if r['k'] == 'rejected':
            print('  REJECTED', pid, t['id'], 'chunked' if t.get('chunk_seed') is not None else '', 'at', r['at'], r['fields'], 'dev', r.get('dev'), flush=True)
            tvsweep.show(t, r)
