"""Development tool (not a registered check): which scenario models detect which seeded change?

  tools/seedtest.py gen  <depth> <module>...        generate and cache behaviours (TLC runs once per scenario)
  tools/seedtest.py run  <seed-id|all> [module...]  replay cached behaviours against a scratch copy of /repo with the seed applied
  tools/seedtest.py one  <cachefile> <srcdir>       (internal) replay one cache against one source tree, print JSON summary

The scratch copy lives under /dev/shm and is removed afterwards; /repo itself is never touched by this tool.
"""
import glob
import gzip
import json
import os
import shutil
import subprocess
import sys

ROOT = os.path.dirname(os.path.dirname(os.path.abspath(__file__)))
sys.path.insert(0, ROOT)
CACHE = os.path.join(ROOT, '.work', 'cache')


def gen(depth, modules):
    from harness import tlcrun, check, replay
    os.makedirs(CACHE, exist_ok=True)
    for m in modules:
        res = tlcrun.run(m, check.cfg_text(depth, True, []), os.path.join(ROOT, '.work', 'gen_' + m), workers=1)
        if res['error'] or not res['meta']:
            print(m, 'TLC FAILED', (res['error'] or '')[:500])
            continue
        tr = replay.maximal(res['traces'])
        with gzip.open(os.path.join(CACHE, '%s.json.gz' % m), 'wt') as fh:
            json.dump({'meta': res['meta'], 'traces': tr, 'depth': depth}, fh)
        print(m, 'depth', depth, 'behaviours', len(tr), 'tlc %.1fs' % res['wall_s'])


def one(cachefile, srcdir):
    os.environ['H2_REPO_SRC'] = srcdir
    from harness import replay
    with gzip.open(cachefile, 'rt') as fh:
        c = json.load(fh)
    divs, nb, ns = replay.replay_all(c['meta'], c['traces'], replay.load_catalogue(), procs=8)
    summ = {}
    for d in divs:
        k = '%s|%s|%s' % (d['kind'], json.dumps(d.get('call'))[:100], ','.join(d.get('fields', [])))
        summ[k] = summ.get(k, 0) + 1
    print(json.dumps({'n': len(divs), 'behaviours': nb, 'kinds': sorted(summ.items(), key=lambda kv: -kv[1])[:4]}))


def run(seed, modules):
    seeds = sorted(os.listdir(os.path.join(ROOT, 'seeded'))) if seed == 'all' else [seed]
    seeds = [s for s in seeds if os.path.isdir(os.path.join(ROOT, 'seeded', s))]
    caches = sorted(glob.glob(os.path.join(CACHE, '*.json.gz')))
    if modules:
        caches = [c for c in caches if os.path.basename(c).split('.')[0] in modules]
    results = {}
    for s in seeds:
        scratch = '/dev/shm/seedsrc_%s_%d' % (s, os.getpid())
        shutil.rmtree(scratch, ignore_errors=True)
        os.makedirs(scratch)
        shutil.copytree('/repo/src', os.path.join(scratch, 'src'))
        r = subprocess.run(['git', 'apply', '--directory=' + scratch.lstrip('/'), '--unsafe-paths',
                            os.path.join(ROOT, 'seeded', s, 'patch.diff')], cwd='/', capture_output=True, text=True)
        if r.returncode != 0:
            r = subprocess.run(['patch', '-p1', '-d', scratch, '-i', os.path.join(ROOT, 'seeded', s, 'patch.diff')],
                               capture_output=True, text=True)
        if r.returncode != 0:
            print(s, 'PATCH FAILED', r.stderr[:300], r.stdout[:300])
            shutil.rmtree(scratch, ignore_errors=True)
            continue
        hits = []
        for c in caches:
            m = os.path.basename(c).split('.')[0]
            p = subprocess.run([sys.executable, os.path.abspath(__file__), 'one', c, os.path.join(scratch, 'src')],
                               capture_output=True, text=True, cwd=ROOT, env=dict(os.environ, PYTHONHASHSEED='0'))
            try:
                out = json.loads(p.stdout.strip().splitlines()[-1])
            except Exception:
                out = {'n': -1, 'err': (p.stderr or p.stdout)[-300:]}
            if out['n'] != 0:
                hits.append((m, out['n'], (out.get('kinds') or [['', 0]])[0][0][:150] if out['n'] > 0 else out.get('err')))
        shutil.rmtree(scratch, ignore_errors=True)
        results[s] = hits
        print(s, 'DETECTED by' if hits else 'MISSED', [(m, n) for m, n, _ in hits])
        for m, n, k in hits[:2]:
            print('     ', m, k)
    json.dump(results, open(os.path.join(ROOT, '.work', 'seedtest_last.json'), 'w'), indent=1)


if __name__ == '__main__':
    if sys.argv[1] == 'gen':
        gen(int(sys.argv[2]), sys.argv[3:])
    elif sys.argv[1] == 'one':
        one(sys.argv[2], sys.argv[3])
    else:
        run(sys.argv[2], sys.argv[3:])
