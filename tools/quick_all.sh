#!/bin/sh
# Development tool: every registered check once in the quick tier, sequentially; prints exit status, wall time, VIOLATION and NOTE lines.
cd "$(dirname "$0")/.."
export VERIF_EVIDENCE_DIR="${VERIF_EVIDENCE_DIR:-$PWD/evidence}"
for p in $(python3 -c "import json; print(' '.join(c['property_id'] for c in json.load(open('MANIFEST.json'))['checks']))"); do
  s=$(date +%s); ./check $p --tier quick > .work_quick_$p.log 2>&1; e=$?
  echo "$p exit=$e wall=$(( $(date +%s) - s ))s"; grep -E "^(VIOLATION|NOTE|MACHINERY)" .work_quick_$p.log | cut -c1-300; rm -f .work_quick_$p.log
done
