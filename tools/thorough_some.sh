#!/bin/sh
# Development tool: the listed checks once in the thorough tier (JOBS at a time); evidence goes to a scratch directory.
cd "$(dirname "$0")/.."
export VERIF_EVIDENCE_DIR="${VERIF_EVIDENCE_DIR:-$PWD/.work/thorough_ev}"
mkdir -p "$VERIF_EVIDENCE_DIR" .work/logs
echo "$@" | tr ' ' '\n' | xargs -P "${JOBS:-2}" -I{} sh -c 's=$(date +%s); ./check {} --tier thorough > .work/logs/thorough_{}.log 2>&1; e=$?; echo "{} exit=$e wall=$(( $(date +%s) - s ))s violations=$(grep -c ^VIOLATION .work/logs/thorough_{}.log)"'
