"""Development tool: run one scenario model with invariants and, if TLC reports a violation, print the steps of the
counterexample compactly.   tools/cex.py <depth> <module> <invariant>..."""
import os
import re
import subprocess
import sys

ROOT = os.path.dirname(os.path.dirname(os.path.abspath(__file__)))
sys.path.insert(0, ROOT)
from harness import tlcrun, check  # noqa: E402

depth, mod, invs = int(sys.argv[1]), sys.argv[2], sys.argv[3:]
wd = os.path.join(ROOT, '.work', 'cex_%d' % os.getpid())
tlcrun.prepare(wd, mod, check.cfg_text(depth, True, invs).replace('INVARIANT EmitTrace\n', ''))
env = dict(os.environ, JAVA_TOOL_OPTIONS='-Xmx4g -Xss64m')
out = subprocess.run(['tlc', '-workers', '4', '-metadir', wd + '/states', '-noGenerateSpecTE', mod + '.tla'], cwd=wd,
                     capture_output=True, text=True, env=env).stdout
import shutil
shutil.rmtree(wd, ignore_errors=True)
m = re.search(r'Error: Invariant (\S+) is violated', out)
print(m.group(0) if m else 'no violation (%s)' % (re.findall(r'\d+ states generated.*', out) or [''])[-1])
for st in re.split(r'\nState \d+: ', out)[1:]:
    lm = re.search(r'/\\ last = (.*?)\n/\\ \w+ = ', st, re.S)
    if not lm:
        continue
    t = re.sub(r'\s+', ' ', lm.group(1))
    if 'a |-> "init"' in t:
        continue
    who = re.search(r'x \|-> "(\w)"', t)
    act = re.search(r'a \|-> "(\w+)"', t)
    call = re.search(r' c \|-> (\[.*?\]),? (?:a|x|p) \|-> ', t) or re.search(r' c \|-> (\[.{0,260})', t)
    fs = re.search(r'fs \|-> (<<.*?>>),? (?:a|x|p|c) \|->', t)
    k = re.search(r' k \|-> (\d+)', t)
    r = re.search(r'r \|-> (\[c \|-> "[^"]*", e \|-> -?\d+[^\]]*\])', t)
    print(' ', who.group(1) if who else '?', act.group(1) if act else '?', (call.group(1) if call else fs.group(1) if fs else ('k=' + k.group(1) if k else ''))[:300],
          '=>', r.group(1) if r else '')
