#!/bin/sh
# Development tool: rebuild every entry of known_findings.json from the scenario models (needed whenever the observation
# format changes, because a finding is re-executed and compared with its recorded observation).
cd "$(dirname "$0")/.."
export PYTHONHASHSEED=0
/venv/bin/python tools/gen_findings.py 4 MC_SetC MC_PushS MC_FrameS MC_FlowS MC_LifeS MC_LifeC MC_CloseS MC_MiscC MC_MiscS MC_HdrOutC MC_HdrInS MC_PushC MC_LenS MC_UpgS MC_UpgC MC_BigC MC_BigS MC_IdsC MC_RawS | grep -c "^finding"
/venv/bin/python tools/gen_findings.py 5 MC_SetS | grep -c "^finding"
/venv/bin/python tools/gen_findings.py 6 MC_StallS | grep -c "^finding"
/venv/bin/python tools/manual_findings.py | tail -1
