"""Development tool: run scenario modules at a depth against /repo and summarise divergences / formula violations.
  tools/scan.py <depth> <module>... [-- inv1 inv2]"""
import collections, json, os, sys
ROOT = os.path.dirname(os.path.dirname(os.path.abspath(__file__)))
sys.path.insert(0, ROOT)
from harness import check, replay, props

def main():
    args = sys.argv[1:]
    invs = []
    if '--' in args:
        i = args.index('--'); invs = args[i+1:]; args = args[:i]
    depth = int(args[0])
    cat = replay.load_catalogue()
    for m in args[1:]:
        out = {'scenarios': [], 'machinery': [], 'formula_violations': [], 'pairs': {}, 'ops': collections.Counter(),
               'dev_seen': collections.Counter(), 'behaviours': 0, 'steps': 0, 'samples': []}
        sc = {'module': m, 'depth': {'quick': depth}, 'invariants': invs}
        divs = check.run_scenario('SCAN', sc, 'quick', 0, cat, out)
        r = out['scenarios'][0]
        print(m, 'depth', depth, 'states', r['states'], 'behaviours', r.get('behaviours'), 'tlc', r['tlc_wall_s'], 'replay', r.get('replay_wall_s'),
              'divs', len(divs), 'machinery', [x[:1500] for x in out['machinery']], 'formula', out['formula_violations'], 'dev', dict(out['dev_seen']))
        summ = collections.Counter()
        for d in divs:
            summ['%s|%s|%s' % (d['kind'], json.dumps(d.get('call'))[:120], ','.join(d.get('fields', [])))] += 1
        for k, v in summ.most_common(8):
            print('    ', v, k)
        if os.environ.get('SCAN_SHOW'):
            seen = set()
            for d in divs:
                k = '%s|%s' % (json.dumps(d.get('call'))[:120], ','.join(d.get('fields', [])))
                if k in seen or d['kind'] != 'diverged':
                    continue
                seen.add(k)
                print('  ---', d['phase'], d['step'], json.dumps(d['call'])[:200], d['fields'], 'dev', d.get('dev'), 'before', d.get('dev_before'))
                for f in d['fields']:
                    top = f.split('.')[0]
                    print('     %s spec: %s' % (f, json.dumps(d['expected'].get(top))[:700]))
                    print('     %s code: %s' % (f, json.dumps(d['observed'].get(top))[:700]))
                for st in (d.get('steps') or [])[:d['step']]:
                    print('        ', json.dumps({a: b for a, b in st.items() if a not in ('p', 'dev')})[:200], st['p']['r']['c'] if 'p' in st else '')
                if len(seen) >= int(os.environ.get('SCAN_SHOW')):
                    break
main()
