"""Development tool: validate a recorded corpus (harness/recplug.py output) against the specification and summarise.
   tools/corpus.py <file.json> [max-traces]"""
import collections
import json
import os
import sys

ROOT = os.path.dirname(os.path.dirname(os.path.abspath(__file__)))
sys.path.insert(0, ROOT)
from harness import tv  # noqa: E402
from tools import tvsweep  # noqa: E402

traces = json.load(open(sys.argv[1]))
if len(sys.argv) > 2:
    traces = traces[:int(sys.argv[2])]
print(len(traces), 'traces', sum(len(t['steps']) for t in traces), 'steps')
res, stats = tv.validate(traces, os.path.join(ROOT, '.work', 'corpus_%d' % os.getpid()), timeout=3000)
print({k: v for k, v in stats.items() if k != 'errors'})
for e in stats['errors'][:3]:
    print('TLC ERROR', e[:2500])
print(collections.Counter(r['k'] for r in res))
kinds = collections.Counter()
shown = set()
out = open(os.path.join(ROOT, '.work', 'corpus_detail.log'), 'w')
for t, r in zip(traces, res):
    for pf in r['propfails']:
        kinds[('PROPFAIL', pf['formula'])] += 1
        if ('PROPFAIL', pf['formula']) not in shown:
            shown.add(('PROPFAIL', pf['formula']))
            st = t['steps'][pf['at'] - 1]
            print('PROPFAIL', t['id'], pf['formula'], 'at', pf['at'], json.dumps({k: v for k, v in st.items() if k != 'p'})[:300], json.dumps(st['p']['r']))
    if r['k'] in ('rejected', 'missing'):
        st = t['steps'][r['at'] - 1] if r['at'] else {}
        what = st.get('c', {}).get('op') if st.get('a') == 'call' else (','.join(str(f.get('typ', f['t'])) for f in st.get('fs', [])) or st.get('a'))
        key = (r['k'], what, tuple(sorted(r['fields'])), tuple(sorted(r.get('dev') or [])))
        kinds[key] += 1
        if r['k'] == 'rejected':
            tvsweep.show(t, r, out=out)
for k, v in kinds.most_common(60):
    print(v, k)
