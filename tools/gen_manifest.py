"""Writes MANIFEST.json from the registry in harness/props.py (run after editing the registry)."""
import json
import os
import sys

ROOT = os.path.dirname(os.path.dirname(os.path.abspath(__file__)))
sys.path.insert(0, ROOT)
from harness import props  # noqa: E402

TEXT = {
    'C01': 'client and server models connected by FIFO channels (MC_Pair1): TLC checks that deliveries between deviation-free endpoints are always accepted; every edge of the bounded state graph is replayed into two real H2Connection objects and results, emitted frames, events and window queries are compared step by step',
    'C02': 'every byte string taken from data_to_send in the replayed behaviours is parsed by an independent frame codec (harness/wire.py) and must equal the frames the model predicts for that call; TLC checks the frame-size bound on the model',
    'C03': 'TLC checks on the flow-control model that a successful send_data fits both windows and an oversized one raises FlowControlError and emits nothing; replay compares local_flow_control_window and both outbound windows after every step',
    'C04': 'TLC checks FLOW_CONTROL_ERROR exactly at the advertised connection window and that the window moves only by emitted WINDOW_UPDATEs and received DATA; replay compares remote_flow_control_window and the window managers after every step',
    'C05': 'TLC checks that automatic window management never advertises more than the maximum; replay compares the WINDOW_UPDATE frames emitted by acknowledge_received_data and the managers state after every step',
    'C06': 'the stream FSM table of the model is the reviewed RFC 7540 5.1 machine plus the documented leniencies; every (state, local action / received frame) edge within the bound is replayed and reaction (result, frames, events, state, closed-by) compared',
    'C07': 'TLC checks that a deviation-free server reports only requests and a client only responses/pushes; replay compares the full event list of every receive_data call',
    'C08': 'TLC checks role restrictions on emitted frames; replay compares result and frames of every header/data/end/push/alt/prio call in every reachable stream state',
    'C09': 'TLC checks parity/monotonicity of the id watermarks and get_next_available_stream_id; replay compares them and the reaction to HEADERS/PUSH_PROMISE on low or wrong-parity ids',
    'C10': 'TLC checks that a step adding an outbound open stream ends within the peer limit; replay compares open_inbound_streams/open_outbound_streams and the reaction to opening sends and HEADERS under changing limits',
    'C11': 'settings with pending queues are modelled as the code has them; TLC checks one ACK and one RemoteSettingsChanged per received SETTINGS; replay compares local/remote settings (current and pending), events and consumers after every step',
    'C12': 'TLC checks that update_settings succeeds exactly on RFC-valid values and that received invalid values raise with the mandated code; replay compares result and GOAWAY code',
    'C13': 'the model tracks whether the HPACK encoder context is still predictable; TLC checks it becomes unpredictable only through the recorded failed-send defect; replay decodes every emitted block with an independent hpack decoder and compares the header list',
    'C14': 'the outbound normalisation/validation pipeline is transcribed in Headers.tla; TLC checks conformance of every emitted block over the catalogue of header lists; replay compares the decoded emitted block field by field (incl. never-indexed flag)',
    'C15': 'inbound validation transcribed in Headers.tla; TLC checks a delivered block is conformant and a non-conformant one is never delivered; replay compares result and events for every catalogue block as request, response, trailers and push',
    'C16': 'expected/actual content length are model state; TLC checks acceptance exactly at equality; replay compares the reaction to DATA of several sizes, padding and END_STREAM for GET/HEAD/POST exchanges',
    'C17': 'TLC checks that receive_data predictions are h2 exceptions only (the two recorded foreign exceptions excused); replay compares the exception class of every receive_data call over hostile frame sequences. Frame-level inputs only: arbitrary byte strings below the frame layer are outside the model',
    'C18': 'TLC checks that a raising receive_data emits exactly one GOAWAY with the exception code and the highest peer stream id; replay compares the emitted frames of every erroneous input in the scenarios',
    'C19': 'every route to a closed connection followed by every call and frame: TLC checks that only GOAWAY leaves a closed connection; replay compares results and frames',
    'C20': 'TLC checks that HEADERS/DATA/WINDOW_UPDATE/RST_STREAM on a locally reset stream are accepted without events; replay compares reaction, connection-window replenishment and emitted RST_STREAM',
    'C21': 'the model is stated on frame sequences; the replay feeds the bytes of every receive_data input in seeded random partitions (incl. byte by byte) and requires the same result, events and output as the model predicts for the unsplit input',
    'C22': 'TLC checks when push_stream may succeed and that a push-disabled client refuses PUSH_PROMISE; replay compares push calls and PUSH_PROMISE handling on both ends',
    'C23': 'TLC checks that PRIORITY changes no stream or window state and that only clients prioritise; replay compares PriorityUpdated events, emitted PRIORITY fields and state after every step',
    'C24': 'TLC checks who may advertise and origin/stream exclusivity; replay compares advertise calls and ALTSVC frames in every stream state of the scenarios',
    'C25': 'initiate_upgrade_connection is modelled on both ends (preamble, HTTP2-Settings payload produced by the client and applied by the server without an ACK, stream 1 created half-closed); TLC checks that a fresh upgrade leaves stream 1 half-closed (local/remote), the next ids at 3 and 2, the returned payload equal to the local settings in force, and the server view of the client settings equal to that payload; replay compares every step of upgraded client, server and client/server pair scenarios, including the response on stream 1 and refused request bodies',
    'C26': 'TLC checks one PING ACK with identical payload per received PING in arrival order; replay compares frames and events',
    'C27': 'TLC checks the closed-stream memory cap and that non-opening frames allocate no stream; replay compares the stream table and closed-stream memory read from the real object after every step',
    'C28': 'the model is a function of the call sequence; the same behaviours are replayed in two fresh interpreters with different PYTHONHASHSEED values, both must match the prediction and the digests of all emitted bytes must be equal',
    'C29': 'TLC checks that raising calls emit nothing and predictions are documented exception classes; replay compares the exception class and emitted bytes of every call in every reachable state of seven scenario models',
}


def main():
    checks = []
    for pid in sorted(props.PROPS):
        mods = [s['module'] for s in props.PROPS[pid]['scenarios']]
        checks.append({
            'property_id': pid,
            'quick_cmd': './check %s --tier quick' % pid,
            'thorough_cmd': './check %s --tier thorough' % pid,
            'evidence_file': '/verif/evidence/%s.json' % pid,
            'replay_cmd_template': './check replay {path}',
            'engine': 'tlc+replay',
            'level_claimed': {
                'category': 'model_checking',
                'text': TEXT[pid] + '. Scenario models: ' + ', '.join(mods) + '. Bounded (alphabets and depth per scenario), exhaustive within the bound: one witness behaviour per edge of the state graph. '
                        'In the other direction (code -> spec), seeded random programs ('
                        + ', '.join(sorted({'%s/%s' % (e['profile'], e['flavour']) for e in props.TV.get(pid, [])}))
                        + ': long histories, boundary-dense values) are executed on the real code, recorded, and validated by TLC against '
                        'spec/Trace.tla: every recorded step must be a step the specification allows, and every property formula is '
                        'evaluated in every state of every recorded execution.  The same is done with what the repository\'s own tests do: '
                        'a recording plugin (harness/recplug.py) logs every public call of every H2Connection the tests create ('
                        + ', '.join(os.path.basename(f) for f in props.CORPUS.get(pid, [])) + ' in the quick tier, the whole suite in the '
                        'thorough tier) and TLC validates the recordings.',
                'design_ref': 'DESIGN.md section 0 (as-built status) and sections 2-6',
            },
            'level_note': 'trusted: TLC, the TLA+ model spec/H2.tla + Headers.tla + Scn.tla (as-built, deviation branches marked), '
                          'harness/wire.py and hpack as independent decoders, the abstraction in harness/absn.py. Steps on or after a '
                          'marked deviation branch (known finding) are judged only while that finding still reproduces exactly as recorded.',
            'technique': 'explicit TLA+ specification; TLC invariants; spec-to-code replay of every state-graph edge with full state '
                         'comparison; code-to-spec trace validation of recorded random executions by TLC (spec/Trace.tla)',
        })
    man = {
        'version': 1,
        'setup_cmd': 'sh tools/setup.sh',
        'hooks': {
            'guard': 'H2_VERIF',
            'enable': 'no source hooks are needed: the harness drives the public API of /repo/src and reads internal state read-only; the guard name is reserved',
            'baseline_off_cmd': 'cd /repo && /venv/bin/python -m pytest -ra -q -p no:cacheprovider --timeout=900 --continue-on-collection-errors',
            'source_commits': [],
            'add_only': True,
        },
        'engines': [{'name': 'tlc+replay', 'path': '/verif/harness/check.py', 'serves_properties': sorted(props.PROPS),
                     'kind_free_text': 'TLC (explicit-state) on spec/mc/MC_*.tla extending spec/Scn.tla + spec/H2.tla; behaviours replayed into real H2Connection objects by harness/replay.py; recorded executions (harness/gen.py) validated by TLC against spec/Trace.tla (harness/tv.py)'}],
        'checks': checks,
        'notes': 'Known findings (genuine defects recorded, not repaired) are in known_findings.json; repaired ones are listed there as fixed. See DESIGN.md section 0.',
        'not_applicable': [{'property_id': k, 'reason': v} for k, v in sorted(props.NOT_APPLICABLE.items())],
    }
    json.dump(man, open(os.path.join(ROOT, 'MANIFEST.json'), 'w'), indent=1)
    print('checks', len(checks), 'n/a', len(man['not_applicable']))


main()
