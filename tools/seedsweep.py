"""Development tool: run every seeded change through the registered quick check of its property and (re)write
seeded/<id>/meta.json.

  tools/seedsweep.py [seed-id ...]        (default: all)        env SEEDSWEEP_JOBS=n (default 3) parallel checks

For each seed: seeded/<id>/patch.diff is applied to a scratch copy of /repo/src under /dev/shm (removed afterwards; /repo is
never touched), ./check <property> --tier quick runs against it (H2_REPO_SRC, evidence redirected), and the verdict goes into
meta.json together with what the change breaks, what it needs to manifest (from notes.md) and how it was verified (verify.txt).
"""
import concurrent.futures
import json
import os
import re
import shutil
import subprocess
import sys
import time

ROOT = os.path.dirname(os.path.dirname(os.path.abspath(__file__)))
SEEDS = os.path.join(ROOT, 'seeded')


def one(name):
    d = os.path.join(SEEDS, name)
    pid = name[:3]
    scratch = '/dev/shm/seedsweep_%s_%d' % (name, os.getpid())
    shutil.rmtree(scratch, ignore_errors=True)
    os.makedirs(scratch)
    shutil.copytree('/repo/src', os.path.join(scratch, 'src'))
    r = subprocess.run(['patch', '-s', '-p1', '-d', scratch, '-i', os.path.join(d, 'patch.diff')], capture_output=True, text=True)
    res = {'seed': name, 'property': pid}
    if r.returncode != 0:
        res.update(exit=None, verdict='patch does not apply to the current /repo/src', first='')
    else:
        t0 = time.time()
        env = dict(os.environ, H2_REPO_SRC=os.path.join(scratch, 'src'), VERIF_EVIDENCE_DIR=os.path.join(scratch, 'ev'), PYTHONHASHSEED='0')
        p = subprocess.run([os.path.join(ROOT, 'check'), pid, '--tier', 'quick'], cwd=ROOT, capture_output=True, text=True, env=env)
        lines = p.stdout.splitlines()
        vio = [i for i, l in enumerate(lines) if l.startswith('VIOLATION')]
        first = ' '.join(x.strip() for x in lines[vio[0]:vio[0] + 2])[:400] if vio else ''
        first = re.sub(r'replay=\S+', 'replay=<file>', first)
        res.update(exit=p.returncode, verdict='detected' if p.returncode == 1 and vio else ('machinery failure' if p.returncode == 2 else 'missed'),
                   violation_lines=len(vio), first=first, wall_s=round(time.time() - t0, 1))
        if p.returncode == 2:
            res['stderr'] = p.stderr[-600:]
    shutil.rmtree(scratch, ignore_errors=True)
    # meta.json
    notes = open(os.path.join(d, 'notes.md')).read() if os.path.exists(os.path.join(d, 'notes.md')) else ''
    verify = open(os.path.join(d, 'verify.txt')).read() if os.path.exists(os.path.join(d, 'verify.txt')) else ''
    files = sorted(set(re.findall(r'^\+\+\+ b/(\S+)', open(os.path.join(d, 'patch.diff')).read(), re.M)))
    meta = {
        'id': name, 'property': pid,
        'origin': 'written by a fresh sub-agent that was given only the text of the property and a scratch worktree of /repo '
                  '(nothing from /verif); kept after independent verification (see ran)',
        'files_changed': files,
        'what_and_what_it_needs_to_manifest': notes.strip(),
        'ran': verify.strip(),
        'demonstration': 'demo.py (exit 0 on the unchanged tree, non-zero with patch.diff applied; PYTHONPATH=<tree>/src /venv/bin/python demo.py)',
        'check_result': {'command': 'tools/seedsweep.py %s  (= ./check %s --tier quick against /repo/src + patch.diff)' % (name, pid),
                         'verif_commit': subprocess.run(['git', '-C', ROOT, 'rev-parse', '--short', 'HEAD'], capture_output=True, text=True).stdout.strip(),
                         'repo_commit': subprocess.run(['git', '-C', '/repo', 'rev-parse', '--short', 'HEAD'], capture_output=True, text=True).stdout.strip(),
                         'exit': res['exit'], 'verdict': res['verdict'], 'first_violation': res.get('first', '')},
    }
    json.dump(meta, open(os.path.join(d, 'meta.json'), 'w'), indent=1)
    return res


def main():
    names = sys.argv[1:] or sorted(n for n in os.listdir(SEEDS) if os.path.isdir(os.path.join(SEEDS, n)) and os.path.exists(os.path.join(SEEDS, n, 'patch.diff')))
    jobs = int(os.environ.get('SEEDSWEEP_JOBS', '3'))
    out = []
    with concurrent.futures.ThreadPoolExecutor(max_workers=jobs) as ex:
        for res in ex.map(one, names):
            print('%-7s %-18s %s' % (res['seed'], res['verdict'], res.get('first', '')[:230]), flush=True)
            if res.get('stderr'):
                print('        ' + res['stderr'][-300:].replace('\n', ' | '))
            out.append(res)
    json.dump(out, open(os.path.join(ROOT, 'seeded', 'SWEEP.json'), 'w'), indent=1)
    n = sum(1 for r in out if r['verdict'] == 'detected')
    print('%d of %d detected by the quick check of their own property' % (n, len(out)))


if __name__ == '__main__':
    main()
