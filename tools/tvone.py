"""Development tool: record one random trace and show TLC's verdict in detail.
  tools/tvone.py <profile> <flavour> <seed> <length> [chaos]"""
import json
import os
import sys

ROOT = os.path.dirname(os.path.dirname(os.path.abspath(__file__)))
sys.path.insert(0, ROOT)
from harness import gen, tv  # noqa: E402
from tools import tvsweep  # noqa: E402

p, f, seed, length = sys.argv[1], sys.argv[2], int(sys.argv[3]), int(sys.argv[4])
t = gen.trace(p, f, seed, length, chaos=float(sys.argv[5]) if len(sys.argv) > 5 else None)
res, stats = tv.validate([t], os.path.join(ROOT, '.work', 'tvone_%d' % os.getpid()))
for e in stats['errors'][:2]:
    print('TLC ERROR', e[:3000])
r = res[0]
print(t['id'], r['k'], 'at', r['at'], r['fields'], 'dev', r.get('dev'), 'propfails', [(x['formula'], x['at']) for x in r['propfails']])
if r['k'] == 'rejected':
    tvsweep.show(t, r)
