"""Development tool (never run by a check): (re)build known_findings.json from the deviation branches of the model.

  tools/gen_findings.py <depth> <module>...

For every deviation branch (Mark) of spec/H2.tla that a scenario model exercises, take the shortest TLC behaviour in
which that branch is taken for the first time at the last step, run it against /repo, confirm that the code really
behaves as the as-built model says, and store the program with the recorded observation.  Existing entries for
deviations not seen in this run and the 'fixed' list are kept.
"""
import json
import os
import sys

ROOT = os.path.dirname(os.path.dirname(os.path.abspath(__file__)))
sys.path.insert(0, ROOT)
from harness import tlcrun, check, replay, findings, driver  # noqa: E402


def strip(step):
    return {k: v for k, v in step.items() if k not in ('p', 'dev')}


def main():
    depth = int(sys.argv[1])
    cat = replay.load_catalogue()
    cur = findings.load()
    by_dev = {f['deviation']: f for f in cur.get('findings', [])}
    best = {}
    for m in sys.argv[2:]:
        res = tlcrun.run(m, check.cfg_text(depth, True, []), os.path.join(ROOT, '.work', 'genf_' + m), workers=1)
        if res['error'] or not res['meta']:
            print(m, 'TLC FAILED', (res['error'] or '')[:500])
            continue
        for t in res['traces']:
            x = t[-1]['x']
            for d in t[-1].get('dev', []):
                if any(d in s.get('dev', []) for s in t[:-1] if s['x'] == x):
                    continue
                if d in [dd for s in res['meta'].get('setup', []) for dd in s.get('dev', [])]:
                    continue
                k = (len(t), json.dumps([strip(s) for s in t], sort_keys=True))
                if d not in best or k < best[d][0]:
                    best[d] = (k, m, res['meta'], t)
    for d, (k, m, meta, t) in sorted(best.items()):
        if d not in findings.DEVIATIONS:
            print('deviation without description:', d)
            continue
        props, what = findings.DEVIATIONS[d]
        meta2 = dict(meta, setup=[strip(s) for s in meta.get('setup', [])])
        prog = {'meta': meta2, 'steps': [strip(s) for s in t]}
        obs = findings.run_program(prog, cat, len(t))
        df = replay.compare(t[-1]['p'], obs)
        if df:
            print('NOT REPRODUCED on /repo:', d, df)
            continue
        by_dev[d] = {'id': d, 'properties': props, 'deviation': d, 'what': what, 'scenario': m, 'program': prog, 'at': len(t),
                     'asbuilt': {k2: obs[k2] for k2 in ('r', 'o', 'e', 'q', 'z')}}
        if d in STRICT:
            by_dev[d]['strict'] = STRICT[d]
        print('finding', d, 'from', m, 'steps', len(t), 'last', json.dumps(strip(t[-1]))[:160])
    cur['findings'] = [by_dev[d] for d in sorted(by_dev)]
    json.dump(cur, open(findings.PATH, 'w'), indent=1, sort_keys=True)


STRICT = {}

if __name__ == '__main__':
    main()
