#!/bin/sh
# Development tool: every registered check once in the thorough tier (two at a time), with wall time and exit status per check.
# Evidence goes to a scratch directory (the evidence committed under evidence/ comes from ./check run in /verif).
cd "$(dirname "$0")/.."
export VERIF_EVIDENCE_DIR="${VERIF_EVIDENCE_DIR:-$PWD/.work/thorough_ev}"
mkdir -p "$VERIF_EVIDENCE_DIR" .work/logs
ids=$(python3 -c "import json; print(' '.join(c['property_id'] for c in json.load(open('MANIFEST.json'))['checks']))")
echo $ids | tr ' ' '\n' | xargs -P "${JOBS:-2}" -I{} sh -c 's=$(date +%s); ./check {} --tier thorough > .work/logs/thorough_{}.log 2>&1; e=$?; echo "{} exit=$e wall=$(( $(date +%s) - s ))s violations=$(grep -c ^VIOLATION .work/logs/thorough_{}.log)"'
